"""C19  Vector, composite and block structures agree with their components."""

import numpy as np

from .. import meshes, elements, fields
from ..core import exc_kind, qstr, unq

KINDS = meshes.FIRST_ORDER
RTOL = 1e-12

def gen_mesh(rng):
    """a mesh of `skv.meshes.gen_mesh` in which every vertex belongs to a cell (meshes with
    unreferenced vertices are outside the statement: their DOFs are in no cell); unreferenced
    vertices are removed"""
    m, info = meshes.gen_mesh(rng, KINDS)
    used = np.unique(m.t)
    if len(used) != m.nvertices:
        remap = -np.ones(m.nvertices, dtype=np.int64)
        remap[used] = np.arange(len(used))
        m = type(m)(m.p[:, used], remap[m.t].astype(np.int32))
        info = dict(info, compacted=True, nv=int(m.nvertices))
    return m, info


# --------------------------------------------------------------------------
# element recipes (JSON-able, so that a replay can rebuild the element)
#   ["e", name] | ["dg", spec] | ["vec", spec, dim-or-None] | ["comp", [spec, ...]]

_FACT = None


def factories():
    global _FACT
    if _FACT is None:
        _FACT = {}
        for kind, lst in elements.pool().items():
            for n, f in lst:
                _FACT[n] = (kind, f)
    return _FACT


def build(spec):
    from skfem.element import ElementVector, ElementComposite, ElementDG
    t = spec[0]
    if t == "e":
        return factories()[spec[1]][1]()
    if t == "dg":
        return ElementDG(build(spec[1]))
    if t == "vec":
        return ElementVector(build(spec[1])) if spec[2] is None else ElementVector(build(spec[1]), spec[2])
    if t == "comp":
        return ElementComposite(*[build(s) for s in spec[1]])
    raise ValueError(spec)


def sname(spec):
    t = spec[0]
    if t == "e":
        return spec[1]
    if t == "dg":
        return "DG(" + sname(spec[1]) + ")"
    if t == "vec":
        return "Vector(" + sname(spec[1]) + ("" if spec[2] is None else f",dim={spec[2]}") + ")"
    return "Composite(" + ",".join(sname(s) for s in spec[1]) + ")"


def names_of(kind, fams):
    out = []
    for n, f in elements.pool()[kind]:
        if elements.is_skeleton(n):
            continue
        if elements.family(f()) in fams:
            out.append(n)
    return out


_NAMES = {}


def pool_names(kind, fams):
    key = (kind, tuple(fams))
    if key not in _NAMES:
        _NAMES[key] = names_of(kind, fams)
    return _NAMES[key]


def gen_scalar(rng, kind, allow=("h1", "hdiv", "hcurl", "dg", "global")):
    """one non-wrapper component (possibly ElementDG-wrapped)"""
    r = rng.random()
    if "global" in allow and kind in ("tri", "line") and r < 0.06:
        return ["e", rng.choice(pool_names(kind, ("global",)))]
    if "hdiv" in allow and r < 0.22 and pool_names(kind, ("hdiv",)):
        return ["e", rng.choice(pool_names(kind, ("hdiv",)))]
    if "hcurl" in allow and r < 0.34 and pool_names(kind, ("hcurl",)):
        return ["e", rng.choice(pool_names(kind, ("hcurl",)))]
    base = ["e", rng.choice(pool_names(kind, ("h1",)))]
    if "dg" in allow and r > 0.9:
        return ["dg", base]
    return base


def gen_vector(rng, kind, dims=True):
    inner = gen_scalar(rng, kind, allow=("h1", "dg", "global"))
    r = rng.random()
    if r < 0.1:
        return ["vec", ["vec", inner, None], None]     # matrix-valued: vector of vectors
    if dims and r < 0.4:
        return ["vec", inner, rng.randint(1, 3)]
    return ["vec", inner, None]


def gen_composite(rng, kind):
    for _ in range(6):
        n = rng.choice([2, 2, 2, 3, 3, 4])
        comps = []
        for _ in range(n):
            comps.append(gen_vector(rng, kind) if rng.random() < 0.25 else gen_scalar(rng, kind))
        cs = [elements.counts(build(c)) for c in comps]
        if len(set(map(tuple, cs))) > 1 or kind == "wedge":
            break
    return ["comp", comps]


def gen_wrapper(rng, kind):
    r = rng.random()
    if r < 0.42:
        return gen_vector(rng, kind)
    if r < 0.95:
        return gen_composite(rng, kind)
    return gen_scalar(rng, kind)


def top_components(spec):
    """specs of the solution components the wrapper is split into, and the wrapper type"""
    if spec[0] == "comp":
        return list(spec[1]), "comp"
    if spec[0] == "vec":
        e = build(spec)
        return [spec[1]] * int(e.dim), "vec"
    return [spec], "plain"


# --------------------------------------------------------------------------
# bases

def gen_bkind(rng, m, cell_only=False):
    r = rng.random()
    nt, nf = m.nelements, m.nfacets
    if cell_only or r < 0.4:
        return {"type": "cell"}
    if r < 0.58:
        k = rng.randint(1, nt)
        return {"type": "cell", "elements": sorted(rng.sample(range(nt), k))}
    if r < 0.72:
        return {"type": "facet"}
    if r < 0.84:
        k = rng.randint(1, min(nf, 8))
        return {"type": "facet", "facets": sorted(rng.sample(range(nf), k))}
    interior = [int(f) for f in np.nonzero(m.f2t[1] != -1)[0]]
    if not interior:
        return {"type": "facet"}
    side = rng.randint(0, 1)
    if rng.random() < 0.5:
        return {"type": "interior", "side": side}
    k = rng.randint(1, min(len(interior), 8))
    return {"type": "interior", "side": side, "facets": sorted(rng.sample(interior, k))}


def make_basis(m, elem, bk, q):
    from skfem import CellBasis, FacetBasis, InteriorFacetBasis
    t = bk["type"]
    if t == "cell":
        el = bk.get("elements")
        return CellBasis(m, elem, intorder=q,
                         elements=None if el is None else np.array(el, dtype=np.int32))
    fa = bk.get("facets")
    fa = None if fa is None else np.array(fa, dtype=np.int32)
    if t == "facet":
        return FacetBasis(m, elem, intorder=q, facets=fa)
    return InteriorFacetBasis(m, elem, intorder=q, facets=fa, side=bk.get("side", 0))


def rand_vector(rng, n, cplx=False):
    x = np.array([rng.randint(-16, 16) / 8 for _ in range(n)])
    if cplx:
        x = x + 1j * np.array([rng.randint(-16, 16) / 8 for _ in range(n)])
    return x


# --------------------------------------------------------------------------
# field comparison

def field_diff(a, b):
    """None if two DiscreteFields agree in every attribute (presence, shape, values), else a
    description"""
    for n in range(9):
        A, B = a.get(n), b.get(n)
        if A is None and B is None:
            continue
        if (A is None) != (B is None):
            return f"attribute {fields.ATTRS[n]} present in one only"
        A, B = np.asarray(A), np.asarray(B)
        if A.shape != B.shape:
            return f"attribute {fields.ATTRS[n]} has shape {A.shape} vs {B.shape}"
        if A.size == 0:
            continue
        tol = RTOL * 10 * (1.0 + float(np.abs(A).max()))
        d = float(np.abs(A - B).max())
        if not d <= tol:
            return f"attribute {fields.ATTRS[n]} differs by {d:.3g}"
    return None


def sub_field(df, c):
    """component `c` of a vector-valued DiscreteField (ElementVector adds a leading axis)"""
    from skfem.element import DiscreteField
    return DiscreteField(*[None if a is None else np.asarray(a)[c] for a in df.astuple])


def oracle_indices(wb, cb, c, how):
    """the bijection component numbering -> wrapper numbering, from the DOF tables of the two
    Dofs objects: the `a`-th DOF of an entity in the component is the `(o + a)`-th (composite) /
    `(a * dim + c)`-th (vector) DOF of the same entity in the wrapper"""
    idx = -np.ones(cb.N, dtype=np.int64)
    if how == "comp":
        o = np.zeros(4, dtype=np.int64)
        for k in range(c):
            e = wb.elem.elems[k]
            o += np.array([e.nodal_dofs, e.edge_dofs, e.facet_dofs, e.interior_dofs])
    for t, (Tw, Tc) in enumerate([(wb.dofs.nodal_dofs, cb.dofs.nodal_dofs), (wb.dofs.edge_dofs, cb.dofs.edge_dofs),
                                  (wb.dofs.facet_dofs, cb.dofs.facet_dofs),
                                  (wb.dofs.interior_dofs, cb.dofs.interior_dofs)]):
        Tc = np.asarray(Tc)
        if Tc.size == 0:
            continue
        for a in range(Tc.shape[0]):
            row = (o[t] + a) if how == "comp" else (a * int(wb.elem.dim) + c)
            idx[Tc[a]] = np.asarray(Tw)[row]
    return idx


def same_domain(wb, cb):
    if wb.nelems != cb.nelems:
        return f"component basis has {cb.nelems} cells/facets, wrapper basis {wb.nelems}"
    for attr in ("tind", "find"):
        a, b = getattr(wb, attr, None), getattr(cb, attr, None)
        if attr == "tind":      # None = all cells in order
            a = np.arange(wb.mesh.nelements) if a is None else a
            b = np.arange(cb.mesh.nelements) if b is None else b
        if (a is None) != (b is None) or (a is not None and not np.array_equal(np.asarray(a), np.asarray(b))):
            return f"component basis is evaluated on other cells/facets than the wrapper basis (.{attr})"
    if not np.array_equal(wb.X, cb.X) or np.asarray(wb.dx).shape != np.asarray(cb.dx).shape \
            or not np.allclose(wb.dx, cb.dx, rtol=1e-13, atol=0):
        return "component basis has different quadrature points / dx"
    return None


# --------------------------------------------------------------------------
# S1: split + interpolate

def check_split(ctx, m, minfo, spec, bk, q, x, depth=0):
    """returns False if the case could not be evaluated"""
    comps, how = top_components(spec)
    replay = {"clause": "split/interpolate", "mesh": meshes.mesh_descr(m), "element": spec, "name": sname(spec),
              "basis": bk, "intorder": q, "x": [complex(v) if np.iscomplexobj(x) else float(v) for v in x]}
    sig = {"element": sname(spec), "basis": bk["type"]}
    try:
        wb = make_basis(m, build(spec), bk, q)
        if len(x) != wb.N:
            x = np.resize(x, wb.N)
            replay["x"] = [float(v) for v in np.real(x)]
        whole = wb.interpolate(x)
        parts = wb.split(x)
        si = wb.split_indices()
    except Exception as ex:
        ctx.violation("split/interpolate raised " + exc_kind(ex), dict(replay, err=repr(ex)),
                      dict(sig, what="raise-split"))
        return False
    ctx.count("split:" + how)
    ctx.count("split-basis:" + bk["type"] + ("-subset" if ("elements" in bk or "facets" in bk) else ""))
    if len(parts) != len(comps) or len(si) != len(comps):
        ctx.violation("split() returns a wrong number of components", dict(replay, got=len(parts), want=len(comps)),
                      dict(sig, what="split-count"))
        return True
    # the index sets partition 0..N-1
    allix = np.concatenate([np.asarray(s) for s in si]) if si else np.array([], dtype=int)
    if how != "plain" and (len(allix) != wb.N or not np.array_equal(np.sort(allix), np.arange(wb.N))):
        ctx.violation("split_indices() is not a partition of the DOF numbers 0..N-1",
                      dict(replay, sizes=[len(s) for s in si], N=int(wb.N)), dict(sig, what="split-partition"))
    for c, (xc, cb) in enumerate(parts):
        want = whole[c] if how == "comp" else (sub_field(whole, c) if how == "vec" else whole)
        if not np.array_equal(np.asarray(xc), x[np.asarray(si[c])]):
            ctx.violation("split(x)[c][0] is not x[split_indices()[c]]", dict(replay, component=c),
                          dict(sig, what="split-vs-indices"))
        try:
            msg = same_domain(wb, cb)
            if msg is None:
                if len(xc) != cb.N:
                    msg = f"component vector has length {len(xc)}, component basis N={cb.N}"
                else:
                    msg = field_diff(want, cb.interpolate(np.asarray(xc)))
                    msg = None if msg is None else "split + interpolate of component differs from the whole: " + msg
        except Exception as ex:
            msg = "interpolating a split component raised " + repr(ex)
        if msg is not None:
            ctx.violation(msg, dict(replay, component=c),
                          dict(sig, what="split-interpolate", restricted=("elements" in bk or "facets" in bk
                                                                          or bk.get("side", 0) != 0)))
            continue
        # independent component basis and independent bijection from the DOF tables
        try:
            ib = make_basis(m, build(comps[c]), bk, q)
            if how == "plain":
                idx = np.arange(wb.N)
            else:
                idx = oracle_indices(wb, ib, c, how)
            if (idx < 0).any():
                msg = "component DOFs without a counterpart in the wrapper's tables"
            else:
                msg = field_diff(want, ib.interpolate(x[idx]))
                if msg is None and how != "plain" and not np.array_equal(idx, np.asarray(si[c])):
                    msg = "split_indices()[c] is not the entity-wise bijection of the DOF tables"
        except Exception as ex:
            msg = "independent component interpolation raised " + repr(ex)
        if msg is not None:
            ctx.violation("component-wise interpolation (entity-wise bijection) differs from the whole: " + msg,
                          dict(replay, component=c), dict(sig, what="split-oracle"))
    # nested wrappers: the same statement one level down
    if depth == 0:
        for c, cs in enumerate(comps):
            if how == "comp" and cs[0] == "vec" and len(parts[c][0]) == parts[c][1].N:
                ctx.count("split:nested")
                check_split(ctx, m, minfo, cs, bk, q, np.asarray(parts[c][0]), depth=1)
            if how == "vec" and cs[0] == "vec" and c == 0 and len(parts[c][0]) == parts[c][1].N:
                ctx.count("split:nested")
                check_split(ctx, m, minfo, cs, bk, q, np.asarray(parts[c][0]), depth=1)
    return True


def leaves(spec):
    if spec[0] == "e":
        return [spec]
    if spec[0] in ("dg", "vec"):
        return leaves(spec[1])
    return [l for s in spec[1] for l in leaves(s)]


_SUPP = {}


def supported(m, kind, spec, bk, q):
    """a wrapper is only exercised on basis types on which each of its leaf elements can be
    evaluated on its own (failures of a plain element are not this property's business)"""
    if kind == "wedge" and bk["type"] != "cell":
        return False
    for leaf in leaves(spec):
        key = (kind, leaf[1], bk["type"])
        if key not in _SUPP:
            try:
                b = make_basis(m, build(leaf), bk, q)
                b.interpolate(np.ones(b.N))
                _SUPP[key] = True
            except Exception:
                _SUPP[key] = False
        if not _SUPP[key]:
            return False
    return True


# --------------------------------------------------------------------------
# S2: block structure of coupling forms

def structure(cb):
    """which attributes the field of a one-field basis carries, with their tensor shapes"""
    return tuple((n, np.asarray(a).shape[:-2]) for n, a in enumerate(cb.basis[0][0].astuple) if a is not None)


def slots_of(cb):
    """accessors of the scalar slots (attribute, index) of the field of a one-field basis"""
    return [acc for (_, acc) in fields.components(cb.basis[0][0], maxorder=2)]


def wfun(wk, w):
    if wk == 0:
        return 1.0
    return np.asarray(w["x"])[0] + 2.0


def gen_terms(rng, uslots, vslots, nterms):
    """random coupling integrand sum_t coef * u_[cu].slot * v_[cv].slot * wfun: every (trial
    component, test component) pair gets at least one term when nterms allows"""
    pairs = [(a, b) for a in range(len(uslots)) for b in range(len(vslots)) if uslots[a] and vslots[b]]
    rng.shuffle(pairs)
    terms = []
    for t in range(nterms):
        cu, cv = pairs[t % len(pairs)]
        terms.append([rng.choice([-3, -2, -1, 1, 2, 3, 5]) / 2, cu, list(rng.choice(uslots[cu])),
                      cv, list(rng.choice(vslots[cv])), rng.randint(0, 1)])
    return terms


def _acc(a):
    return (a[0], tuple(a[1]))


def get_slot(df, acc, lead=None):
    n, idx = _acc(acc)
    arr = np.asarray(df.get(n))
    if lead is not None:
        idx = (lead,) + idx
    return arr[idx]


def whole_integrand(terms, ncu, ncv, uhow, vhow):
    """the coupling integrand on the wrapper's fields: composite -> one argument per component,
    vector -> one argument with a leading component axis"""
    nu = ncu if uhow == "comp" else 1
    nv = ncv if vhow == "comp" else 1

    def impl(us, vs, w):
        tot = 0.0
        for coef, cu, su, cv, sv, wk in terms:
            a = get_slot(us[cu], su) if uhow == "comp" else get_slot(us[0], su, cu if uhow == "vec" else None)
            b = get_slot(vs[cv], sv) if vhow == "comp" else get_slot(vs[0], sv, cv if vhow == "vec" else None)
            tot = tot + coef * a * b * wfun(wk, w)
        return tot
    # explicit arity (Form.block reads the signature)
    an = [f"u{i}" for i in range(nu)] + [f"v{i}" for i in range(nv)] + ["w"]
    src = "def coupling({}):\n    return impl(({},), ({},), w)\n".format(
        ", ".join(an), ", ".join(an[:nu]), ", ".join(an[nu:nu + nv]))
    ns = {"impl": impl}
    exec(src, ns)
    return ns["coupling"]


def block_integrand(terms, n, mm):
    sel = [t for t in terms if t[1] == n and t[3] == mm]

    def blockform(u, v, w):
        tot = 0.0 * np.asarray(w["x"])[0]
        for coef, cu, su, cv, sv, wk in sel:
            tot = tot + coef * get_slot(u, su) * get_slot(v, sv) * wfun(wk, w)
        return tot
    return blockform


def spdiff(A, B):
    """max |A - B| for sparse/dense matrices of equal shape, and the scale max|A|"""
    import scipy.sparse as sp
    A = sp.csr_matrix(A)
    B = sp.csr_matrix(B)
    D = abs(A - B)
    return (float(D.max()) if D.nnz else 0.0), (float(abs(A).max()) if A.nnz else 0.0)


def close(d, scale):
    return d <= RTOL * (1.0 + scale)


def check_blocks(ctx, m, minfo, uspec, vspec, bk, q, rng):
    from skfem import BilinearForm, LinearForm
    from skfem.utils import bmat
    ucomps, uhow = top_components(uspec)
    vcomps, vhow = top_components(vspec)
    replay = {"clause": "block structure", "mesh": meshes.mesh_descr(m), "trial": uspec, "test": vspec,
              "names": [sname(uspec), sname(vspec)], "basis": bk, "intorder": q}
    sig = {"trial": sname(uspec), "test": sname(vspec), "basis": bk["type"]}
    try:
        ub = make_basis(m, build(uspec), bk, q)
        vb = ub if vspec is uspec else make_basis(m, build(vspec), bk, q)
        ucb = [make_basis(m, build(s), bk, q) for s in ucomps]
        vcb = ucb if vspec is uspec else [make_basis(m, build(s), bk, q) for s in vcomps]
        uslots = [slots_of(b) for b in ucb]
        vslots = [slots_of(b) for b in vcb]
        terms = gen_terms(rng, uslots, vslots, rng.randint(1, 2 * len(ucomps) * len(vcomps)))
        replay["terms"] = terms
        form = whole_integrand(terms, len(ucomps), len(vcomps), uhow, vhow)
        A = BilinearForm(form).assemble(ub, vb)
        usi = [np.asarray(s) for s in ub.split_indices()]
        vsi = [np.asarray(s) for s in vb.split_indices()]
        blocks = [[BilinearForm(block_integrand(terms, n, mm)).assemble(ucb[n], vcb[mm])
                   for n in range(len(ucomps))] for mm in range(len(vcomps))]
        B = bmat(blocks)
    except Exception as ex:
        ctx.violation("assembling a coupling form / its blocks raised " + exc_kind(ex), dict(replay, err=repr(ex)),
                      dict(sig, what="raise-blocks"))
        return
    ctx.count("blocks:" + uhow + "x" + vhow)
    ctx.count("blocks-basis:" + bk["type"])
    Pu, Pv = np.concatenate(usi), np.concatenate(vsi)
    if A.shape != (vb.N, ub.N) or B.shape != A.shape or len(Pu) != ub.N or len(Pv) != vb.N:
        ctx.violation("coupling matrix / block matrix have inconsistent shapes",
                      dict(replay, A=A.shape, B=B.shape), dict(sig, what="block-shape"))
        return
    d, s = spdiff(A.tocsr()[Pv][:, Pu], B)
    if not close(d, s):
        ctx.violation(f"matrix on the wrapper basis differs from bmat of the component matrices permuted by "
                      f"split_indices (by {d:.3g}, scale {s:.3g})", replay, dict(sig, what="block-matrix"))
    # column offsets reported by bmat
    want = list(np.cumsum([len(s_) for s_ in usi])[:-1])
    if [int(v) for v in B.blocks] != [int(v) for v in want]:
        ctx.violation("bmat(...).blocks are not the column offsets of the blocks",
                      dict(replay, blocks=[int(v) for v in B.blocks], want=[int(v) for v in want]),
                      {"what": "bmat-blocks", "ncols": len(usi)})
    # Form.block on composite forms.  Its placeholders for the other components are `.zeros()` of
    # the block's own field and it reads the number of components off the signature, so it can only
    # reproduce the component form when the trial components share one field structure, the test
    # components share one, and there are equally many of both ("like"); otherwise: known finding.
    if uhow == "comp" and vhow == "comp":
        like = (len(ucomps) == len(vcomps) and len({structure(b) for b in ucb}) == 1
                and len({structure(b) for b in vcb}) == 1)
        ctx.count("form.block:" + ("like" if like else "unlike"))
        try:
            F = BilinearForm(form)
            for n in range(len(ucomps)):
                for mm in range(len(vcomps)):
                    Fb = F.block(n, mm).assemble(ucb[n], vcb[mm])
                    d, s = spdiff(Fb, blocks[mm][n])
                    if not close(d, s):
                        ctx.violation(f"Form.block({n},{mm}) differs from the separately written component form "
                                      f"(by {d:.3g})", dict(replay, block=[n, mm]),
                                      dict(sig, what="form-block", like=like))
        except Exception as ex:
            ctx.violation("Form.block raised " + exc_kind(ex), dict(replay, err=repr(ex)),
                          dict(sig, what="form-block", like=like))
    # linear forms: load vector on the wrapper = stacked component vectors
    try:
        nv = len(vcomps) if vhow == "comp" else 1
        bvec = LinearForm(linear_of(terms, nv, vhow)).assemble(vb)
        for mm in range(len(vcomps)):
            sel = [t for t in terms if t[3] == mm]

            def lblock(v, w, sel=sel):
                tot = 0.0 * np.asarray(w["x"])[0]
                for coef, cu, su, cv, sv, wk in sel:
                    tot = tot + coef * get_slot(v, sv) * wfun(1, w)
                return tot
            bm = LinearForm(lblock).assemble(vcb[mm])
            d = float(np.abs(bvec[vsi[mm]] - bm).max()) if len(bm) else 0.0
            if not close(d, float(np.abs(bvec).max()) if len(bvec) else 0.0):
                ctx.violation(f"load vector on the wrapper basis differs from the component load vector (by {d:.3g})",
                              dict(replay, component=mm), dict(sig, what="block-vector"))
    except Exception as ex:
        ctx.violation("assembling a linear form on wrapper/components raised " + exc_kind(ex),
                      dict(replay, err=repr(ex)), dict(sig, what="raise-blocks-linear"))


# --------------------------------------------------------------------------
# S3: asm over lists of bases

def self_form(rng, spec, cb_list, how):
    """random non-symmetric coupling integrand with trial and test in the same wrapper"""
    sl = [slots_of(b) for b in cb_list]
    terms = gen_terms(rng, sl, sl, rng.randint(1, 4))
    return terms, whole_integrand(terms, len(cb_list), len(cb_list), how, how)


def linear_of(terms, nv, vhow):
    def lin(*args):
        w = args[-1]
        vs = args[:-1]
        tot = 0.0
        for coef, cu, su, cv, sv, wk in terms:
            b = get_slot(vs[cv], sv) if vhow == "comp" else get_slot(vs[0], sv, cv if vhow == "vec" else None)
            tot = tot + coef * b * wfun(1, w)
        return tot
    return lin


def random_partition(rng, items, maxparts=4):
    p = rng.randint(1, maxparts)
    groups = [[] for _ in range(p)]
    for it in items:
        groups[rng.randrange(p)].append(int(it))
    out = []
    for g in groups:
        if not g:
            continue
        r = rng.random()
        if r < 0.35 or len(g) < 3:
            pass                                 # ascending
        elif r < 0.65:
            rng.shuffle(g)                       # any order
        else:
            mid = g[1:-1]                        # smallest first, largest last, the others in any order
            rng.shuffle(mid)
            g = [g[0]] + mid + [g[-1]]
        out.append(g)
    return out


def check_asm_lists(ctx, m, minfo, spec, q, rng, facets=False):
    from skfem import BilinearForm, LinearForm, Functional, asm
    comps, how = top_components(spec)
    replay = {"clause": "asm over a list of bases", "mesh": meshes.mesh_descr(m), "element": spec,
              "name": sname(spec), "intorder": q}
    sig = {"element": sname(spec)}
    try:
        if facets:
            interior = [int(f) for f in np.nonzero(m.f2t[1] != -1)[0]]
            boundary = [int(f) for f in m.boundary_facets()]
            r = rng.random()
            if r < 0.4 or not interior:
                fset, side, typ = boundary, 0, "facet"
            elif r < 0.7:
                fset, side, typ = interior, rng.randint(0, 1), "interior"
            else:
                allf = list(range(m.nfacets))
                fset, side, typ = sorted(rng.sample(allf, rng.randint(1, len(allf)))), 0, "facet"
            parts = random_partition(rng, fset)
            bkw = {"type": typ, "facets": fset, "side": side}
            bks = [{"type": typ, "facets": g, "side": side} for g in parts]
        else:
            parts = random_partition(rng, range(m.nelements))
            bkw = {"type": "cell"}
            bks = [{"type": "cell", "elements": g} for g in parts]
        replay.update(partition=parts, basis=bkw)
        wb = make_basis(m, build(spec), bkw, q)
        bases = [make_basis(m, build(spec), bk, q) for bk in bks]
        cbl = [make_basis(m, build(s), bkw, q) for s in comps]
        terms, form = self_form(rng, spec, cbl, how)
        replay["terms"] = terms
        x = rand_vector(rng, wb.N)
        replay["x"] = [float(v) for v in x]
        nf = len(comps) if how == "comp" else 1

        def fun(w):
            c = w["coef"]
            c0 = c[0] if isinstance(c, tuple) else c
            arr = np.asarray(c0.get(0))
            while arr.ndim > 2:
                arr = arr[0]
            return arr * wfun(1, w)

        A = BilinearForm(form).assemble(wb)
        A2 = asm(BilinearForm(form), bases)
        b = LinearForm(linear_of(terms, nf, how)).assemble(wb)
        b2 = asm(LinearForm(linear_of(terms, nf, how)), bases)
        s1 = Functional(fun).assemble(wb, coef=x)
        s2 = asm(Functional(fun), bases, coef=x)
        # a bare callable is wrapped by its argument count
        A3 = asm(form, bases) if (how != "comp" or len(comps) == 1) else None
    except Exception as ex:
        ctx.violation("asm over a partition raised " + exc_kind(ex), dict(replay, err=repr(ex)),
                      dict(sig, what="raise-asm-list"))
        return
    ctx.count("asm-list:" + ("facets" if facets else "cells"))
    ctx.count("asm-list-parts:%d" % len(parts))
    d, s = spdiff(A, A2)
    if A.shape != A2.shape or not close(d, s):
        ctx.violation(f"asm(form, [bases over a partition]) differs from the assembly over the whole set "
                      f"(by {d:.3g}, scale {s:.3g})", replay, dict(sig, what="asm-partition"))
    if A3 is not None:
        d, s = spdiff(A, A3)
        if not close(d, s):
            ctx.violation("asm(callable, [bases]) differs from the assembly of the wrapped form", replay,
                          dict(sig, what="asm-callable"))
    if np.shape(b) != np.shape(b2) or not close(float(np.abs(b - b2).max()) if len(b) else 0.0,
                                                float(np.abs(b).max()) if len(b) else 0.0):
        ctx.violation("asm(linear form, [bases over a partition]) differs from the whole", replay,
                      dict(sig, what="asm-partition-linear"))
    if not close(abs(s1 - s2), abs(s1)):
        ctx.violation("asm(functional, [bases over a partition]) differs from the whole",
                      dict(replay, whole=float(s1), parts=float(s2)), dict(sig, what="asm-partition-functional"))


def check_asm_product(ctx, m, minfo, kind, q, rng):
    """asm over a product of lists: every pair is assembled with its index `w.idx` and the
    tensors are added (zero-padded to the largest shape)"""
    from skfem import BilinearForm, asm
    names = pool_names(kind, ("h1",))
    us = [["e", rng.choice(names)] for _ in range(rng.randint(1, 3))]
    vs = [["e", rng.choice(names)] for _ in range(rng.randint(1, 2))]
    C = [[rng.randint(-3, 3) or 1 for _ in vs] for _ in us]
    replay = {"clause": "asm over a product of lists", "mesh": meshes.mesh_descr(m),
              "trial": [s[1] for s in us], "test": [s[1] for s in vs], "coef": C, "intorder": q}
    try:
        ub = [make_basis(m, build(s), {"type": "cell"}, q) for s in us]
        vb = [make_basis(m, build(s), {"type": "cell"}, q) for s in vs]

        def form(u, v, w):
            return C[w["idx"][0]][w["idx"][1]] * (u * v + 2 * u.grad[0] * v)

        def form1(c):
            return BilinearForm(lambda u, v, w: c * (u * v + 2 * u.grad[0] * v))
        S = asm(BilinearForm(form), ub, vb)
        Nr, Nc = max(b.N for b in vb), max(b.N for b in ub)
        want = np.zeros((Nr, Nc))
        for i, bu in enumerate(ub):
            for j, bv in enumerate(vb):
                Aij = form1(C[i][j]).assemble(bu, bv).toarray()
                want[:Aij.shape[0], :Aij.shape[1]] += Aij
    except Exception as ex:
        ctx.violation("asm over a product of lists raised " + exc_kind(ex), dict(replay, err=repr(ex)),
                      {"what": "raise-asm-product"})
        return
    ctx.count("asm-product")
    if S.shape != want.shape or not close(float(np.abs(S.toarray() - want).max()), float(np.abs(want).max())):
        ctx.violation("asm over a product of basis lists is not the sum of the pairwise assemblies", replay,
                      {"what": "asm-product"})


# --------------------------------------------------------------------------
# S4: COOData

def dense_scatter(indices, data, shape):
    out = np.zeros(shape, dtype=np.asarray(data).dtype)
    if len(shape) == 0:
        return np.sum(data)
    np.add.at(out, tuple(np.asarray(indices)), data)
    return out


def scatter_local(L, vd, ud, shape):
    """sum over cells of the local matrices placed at (vdofs[i][k], udofs[j][k])"""
    out = np.zeros(shape, dtype=L.dtype)
    nt = L.shape[0]
    if L.ndim == 3:
        for i in range(L.shape[1]):
            for j in range(L.shape[2]):
                np.add.at(out, (vd[i, :nt], ud[j, :nt]), L[:, i, j])
    else:
        for i in range(L.shape[1]):
            np.add.at(out, vd[i, :nt], L[:, i])
    return out


def check_coo(ctx, m, minfo, uspec, vspec, bk, q, rng):
    from skfem import BilinearForm, LinearForm
    ucomps, uhow = top_components(uspec)
    vcomps, vhow = top_components(vspec)
    replay = {"clause": "COOData", "mesh": meshes.mesh_descr(m), "trial": uspec, "test": vspec,
              "names": [sname(uspec), sname(vspec)], "basis": bk, "intorder": q}
    sig = {"trial": sname(uspec), "test": sname(vspec), "basis": bk["type"]}
    try:
        ub = make_basis(m, build(uspec), bk, q)
        vb = ub if vspec is uspec else make_basis(m, build(vspec), bk, q)
        ucb = [make_basis(m, build(s), bk, q) for s in ucomps]
        vcb = ucb if vspec is uspec else [make_basis(m, build(s), bk, q) for s in vcomps]
        terms = gen_terms(rng, [slots_of(b) for b in ucb], [slots_of(b) for b in vcb], rng.randint(1, 4))
        replay["terms"] = terms
        F = BilinearForm(whole_integrand(terms, len(ucomps), len(vcomps), uhow, vhow))
        c = F.elemental(ub, vb)
        A = F.assemble(ub, vb).toarray()
    except Exception as ex:
        ctx.violation("Form.elemental raised " + exc_kind(ex), dict(replay, err=repr(ex)),
                      dict(sig, what="raise-coo"))
        return
    ctx.count("coo:" + ("rectangular" if ub.Nbfun != vb.Nbfun else "square"))
    ctx.count("coo-basis:" + bk["type"])
    scale = float(np.abs(A).max()) if A.size else 0.0

    def bad(what, key, **kw):
        ctx.violation(what, dict(replay, **kw), dict(sig, what=key))
    try:
        # conversions
        if tuple(int(v) for v in c.shape) != (vb.N, ub.N):
            bad("COOData.shape is not (N_test, N_trial)", "coo-shape", shape=[int(v) for v in c.shape])
        ind = dense_scatter(c.indices, c.data, (vb.N, ub.N))
        for nm, M in (("toarray", c.toarray()), ("tocsr", c.tocsr().toarray()), ("todefault", c.todefault().toarray()),
                      ("scatter of (indices, data)", ind), ("np.asarray", np.asarray(c))):
            if M.shape != A.shape or not close(float(np.abs(M - A).max()) if A.size else 0.0, scale):
                bad(f"COOData {nm} differs from the assembled matrix", "coo-convert", via=nm)
        # product
        if ub.N == vb.N:
            x = rand_vector(rng, ub.N)
            z = c.dot(x)
            if z.shape != x.shape or not close(float(np.abs(z - A @ x).max()), scale * 4):
                bad("COOData.dot differs from the dense matrix-vector product", "coo-dot", x=x.tolist())
            D = np.array(sorted(rng.sample(range(ub.N), rng.randint(0, ub.N))), dtype=np.int64)
            z = c.dot(x, D=D)
            want = A @ x
            want[D] = x[D]
            if not close(float(np.abs(z - want).max()), scale * 4):
                bad("COOData.dot(x, D) does not keep x on D / the product elsewhere", "coo-dot-D",
                    x=x.tolist(), D=D.tolist())
            ctx.count("coo-dot")
        # local matrices
        L = c.tolocal()
        nt = ub.nelems
        if L.shape != (nt, vb.Nbfun, ub.Nbfun):
            bad(f"tolocal() has shape {L.shape}, expected (cells, Nbfun_test, Nbfun_trial) = "
                f"{(nt, vb.Nbfun, ub.Nbfun)}", "tolocal-orientation")
        else:
            S = scatter_local(L, vb.element_dofs, ub.element_dofs, A.shape)
            if not close(float(np.abs(S - A).max()) if A.size else 0.0, scale):
                bad("scattering tolocal()[k][i][j] to (test dof i, trial dof j) of cell k does not give the "
                    "assembled matrix", "tolocal-orientation", square=bool(ub.Nbfun == vb.Nbfun))
            # per-cell oracle: the matrix assembled over the single cell/facet k
            for k in rng.sample(range(nt), min(nt, 2)):
                bk1 = dict(bk)
                if bk["type"] == "cell":
                    bk1["elements"] = [int(k if ub.tind is None else ub.tind[k])]
                else:
                    bk1["facets"] = [int(ub.find[k])]
                    if hasattr(ub.find, "ori"):
                        continue
                ub1 = make_basis(m, build(uspec), bk1, q)
                vb1 = ub1 if vspec is uspec else make_basis(m, build(vspec), bk1, q)
                Ak = F.assemble(ub1, vb1).toarray()
                Lk = Ak[np.ix_(vb.element_dofs[:, k], ub.element_dofs[:, k])]
                if not close(float(np.abs(Lk - L[k]).max()), scale):
                    bad("tolocal()[k] is not the matrix of the form over cell k with rows = test, cols = trial",
                        "tolocal-orientation", cell=int(k), square=bool(ub.Nbfun == vb.Nbfun))
        c2 = c.fromlocal(L)
        if not np.array_equal(c2.toarray(), c.toarray()) or not np.array_equal(c2.tolocal(), L):
            bad("fromlocal(tolocal()) is not the identity", "local-roundtrip")
        L2 = np.array([rng.randint(-8, 8) / 4 for _ in range(L.size)]).reshape(L.shape)
        if not np.array_equal(c.fromlocal(L2).tolocal(), L2):
            bad("tolocal(fromlocal(L)) is not L", "local-roundtrip")
        # facet bases: local facet matrices summed to elemental matrices
        if bk["type"] != "cell":
            Lc = c.tolocal(basis=ub)
            ecb = make_basis(m, build(uspec), {"type": "cell"}, 1)
            ecv = ecb if vspec is uspec else make_basis(m, build(vspec), {"type": "cell"}, 1)
            if Lc.shape != (m.nelements, vb.Nbfun, ub.Nbfun):
                bad("tolocal(basis=facet basis) has a wrong shape", "tolocal-facets")
            else:
                S = scatter_local(Lc, ecv.element_dofs, ecb.element_dofs, A.shape)
                interior = bool((m.f2t[1, np.asarray(ub.find)] != -1).any())
                if not close(float(np.abs(S - A).max()) if A.size else 0.0, scale):
                    ctx.violation("elemental matrices from tolocal(basis=facet basis) do not scatter to the assembled "
                                  "matrix", replay, dict(sig, what="tolocal-facets", interior=interior))
            ctx.count("coo-tolocal-facets")
        # addition
        terms2 = gen_terms(rng, [slots_of(b) for b in ucb], [slots_of(b) for b in vcb], 2)
        F2 = BilinearForm(whole_integrand(terms2, len(ucomps), len(vcomps), uhow, vhow))
        cc = F2.elemental(ub, vb)
        A2 = F2.assemble(ub, vb).toarray()
        for nm, s in (("c1 + c2", c + cc), ("sum([c1, c2, c1])", sum([c, cc, c]))):
            want = A + A2 + (A if nm.startswith("sum") else 0)
            if s.toarray().shape != want.shape or not close(float(np.abs(s.toarray() - want).max()) if A.size else 0.0,
                                                             3 * scale):
                bad(f"COOData {nm} is not the sum of the tensors", "coo-add", via=nm)
            # per-cell matrices of a SUM: either refused, or matrices that scatter to the tensor of the sum
            try:
                Ls = s.tolocal()
            except NotImplementedError:
                ctx.count("coo-sum-tolocal:refused")
                continue
            ctx.count("coo-sum-tolocal:returned")
            ed_u, ed_v = ub.element_dofs, vb.element_dofs
            ok_l = Ls.ndim == 3 and Ls.shape[1:] == (vb.Nbfun, ub.Nbfun) and Ls.shape[0] % max(1, ed_u.shape[1]) == 0
            if ok_l:
                S = np.zeros(want.shape, dtype=Ls.dtype)
                for kk in range(Ls.shape[0]):
                    k = kk % ed_u.shape[1]
                    S[np.ix_(ed_v[:, k], ed_u[:, k])] += Ls[kk]
                ok_l = close(float(np.abs(S - want).max()) if want.size else 0.0, 3 * scale)
            if not ok_l:
                bad(f"tolocal() of the COOData {nm} returns per-cell matrices that do not scatter to the tensor of the "
                    f"sum (it used to be refused with NotImplementedError)", "coo-add-tolocal", via=nm)
    except Exception as ex:
        ctx.violation("COOData operation raised " + exc_kind(ex), dict(replay, err=repr(ex)),
                      dict(sig, what="raise-coo-op"))
        return
    # inverse of the local matrices: needs square invertible local matrices
    if ub.Nbfun == vb.Nbfun and vspec is uspec and bk["type"] == "cell":
        try:
            sl = [slots_of(b)[0] for b in ucb]
            mterms = [[1.0, n, list(sl[n]), n, list(sl[n]), 1] for n in range(len(ucomps))]
            mass = whole_integrand(mterms, len(ucomps), len(ucomps), uhow, uhow)
            pert = whole_integrand(terms, len(ucomps), len(ucomps), uhow, uhow)

            def invform(*args):
                w = args[-1]
                return mass(*args) + np.asarray(w["h"]) ** 2 / 64 * pert(*args)
            FI = BilinearForm(invform)
            ci = FI.elemental(ub)
            Li = ci.tolocal()
            if np.linalg.cond(Li).max() < 1e6:
                inv = ci.inverse()
                Lv = inv.tolocal()
                I = np.einsum("kim,kmj->kij", Lv, Li)
                err = float(np.abs(I - np.eye(ub.Nbfun)[None]).max())
                if err > 1e-7:
                    ctx.violation(f"inverse(): local matrices are not the inverses of the local matrices "
                                  f"(residual {err:.3g})", replay, dict(sig, what="coo-inverse"))
                # scatter of the inverse blocks
                S = scatter_local(np.linalg.inv(Li), ub.element_dofs, ub.element_dofs, A.shape)
                if not close(float(np.abs(S - inv.toarray()).max()), float(np.abs(S).max()) * 1e4):
                    ctx.violation("inverse() is not the scatter of the inverted local matrices (rows = test, "
                                  "cols = trial)", replay, dict(sig, what="coo-inverse"))
                ctx.count("coo-inverse")
                # discontinuous numbering: the global inverse
                ed = ub.element_dofs
                if len(np.unique(ed)) == ed.size and ed.size == ub.N and ub.N <= 400:
                    G = np.linalg.inv(ci.toarray())
                    if not close(float(np.abs(G - inv.toarray()).max()), float(np.abs(G).max()) * 1e4):
                        ctx.violation("inverse() of a cell-wise decoupled matrix is not the inverse matrix", replay,
                                      dict(sig, what="coo-inverse-dg"))
                    ctx.count("coo-inverse-dg")
        except Exception as ex:
            ctx.violation("COOData.inverse raised " + exc_kind(ex), dict(replay, err=repr(ex)),
                          dict(sig, what="raise-coo-inverse"))
    # linear forms
    try:
        nv = len(vcomps) if vhow == "comp" else 1
        LF = LinearForm(linear_of(terms, nv, vhow))
        lc = LF.elemental(vb)
        bvec = LF.assemble(vb)
        for nm, v in (("toarray", lc.toarray()), ("todefault", lc.todefault()),
                      ("scatter", dense_scatter(lc.indices, lc.data, (vb.N,)))):
            if v.shape != bvec.shape or not close(float(np.abs(v - bvec).max()) if len(bvec) else 0.0,
                                                  float(np.abs(bvec).max()) if len(bvec) else 0.0):
                bad(f"COOData (1-tensor) {nm} differs from the assembled vector", "coo-convert-linear")
        Ll = lc.tolocal()
        if Ll.shape != (vb.nelems, vb.Nbfun):
            bad("tolocal() of a linear form has a wrong shape", "tolocal-linear")
        else:
            S = scatter_local(Ll, vb.element_dofs, None, bvec.shape)
            if not close(float(np.abs(S - bvec).max()) if len(bvec) else 0.0, float(np.abs(bvec).max()) if len(bvec) else 0):
                bad("scattering the local vectors of tolocal() does not give the assembled vector", "tolocal-linear")
            if not np.array_equal(lc.fromlocal(Ll).toarray(), lc.toarray()):
                bad("fromlocal(tolocal()) is not the identity (linear form)", "local-roundtrip")
            if bk["type"] != "cell":
                Lc = lc.tolocal(basis=vb)
                ecv = make_basis(m, build(vspec), {"type": "cell"}, 1)
                S = scatter_local(Lc, ecv.element_dofs, None, bvec.shape)
                interior = bool((m.f2t[1, np.asarray(vb.find)] != -1).any())
                if not close(float(np.abs(S - bvec).max()) if len(bvec) else 0.0,
                             float(np.abs(bvec).max()) if len(bvec) else 0):
                    ctx.violation("elemental vectors from tolocal(basis=facet basis) do not scatter to the assembled "
                                  "vector", replay, dict(sig, what="tolocal-facets", interior=interior))
        s2 = lc + lc
        if not close(float(np.abs(s2.toarray() - 2 * bvec).max()) if len(bvec) else 0.0,
                     float(np.abs(bvec).max()) if len(bvec) else 0):
            bad("COOData + (1-tensors) is not the sum", "coo-add")
        try:
            s2.tolocal()
            bad("tolocal() after + did not refuse (local_shape must be dropped)", "coo-add-local")
        except NotImplementedError:
            pass
    except Exception as ex:
        ctx.violation("COOData operation on a linear form raised " + exc_kind(ex), dict(replay, err=repr(ex)),
                      dict(sig, what="raise-coo-linear"))


# --------------------------------------------------------------------------
# S5: bmat, CompositeBasis, trilinear forms, Form.partial

def check_bmat(ctx, rng):
    import scipy.sparse as sp
    from skfem.utils import bmat
    from skfem.assembly.form.coo_data import COOData
    nr, nc = rng.randint(1, 4), rng.randint(1, 6)
    rs = [rng.randint(1, 4) for _ in range(nr)]
    cs = [rng.randint(1, 5) for _ in range(nc)]
    dense = [[np.array([[rng.randint(-4, 4) / 2 for _ in range(cs[j])] for _ in range(rs[i])])
              for j in range(nc)] for i in range(nr)]
    kinds = [[rng.choice(["csr", "csr", "coo", "dense", "coodata", "none"]) for _ in range(nc)] for _ in range(nr)]
    # keep one block per block row / block column
    for i in range(nr):
        if all(k == "none" for k in kinds[i]):
            kinds[i][rng.randrange(nc)] = "csr"
    for j in range(nc):
        if all(kinds[i][j] == "none" for i in range(nr)):
            kinds[rng.randrange(nr)][j] = "csr"
    if not any(k in ("csr", "coo", "coodata") for r in kinds for k in r):
        kinds[0][0] = "csr"      # scipy insists on at least one sparse block
    blocks = []
    for i in range(nr):
        row = []
        for j in range(nc):
            k, D = kinds[i][j], dense[i][j]
            if k == "none":
                row.append(None)
                dense[i][j] = np.zeros_like(D)
            elif k == "csr":
                row.append(sp.csr_matrix(D))
            elif k == "coo":
                row.append(sp.coo_matrix(D))
            elif k == "dense":
                row.append(D)
            else:
                r, c = np.nonzero(np.ones_like(D))
                row.append(COOData(np.array([r, c]), D[r, c], D.shape, None))
        blocks.append(row)
    replay = {"clause": "bmat", "row sizes": rs, "col sizes": cs, "kinds": kinds,
              "dense": [[d.tolist() for d in r] for r in dense]}
    try:
        B = bmat(blocks)
        got, off = B.toarray(), [int(v) for v in B.blocks]
    except Exception as ex:
        ctx.violation("bmat raised " + exc_kind(ex), dict(replay, err=repr(ex)), {"what": "raise-bmat"})
        return
    ctx.count("bmat:%d-cols" % min(nc, 4))
    want = np.block(dense)
    if got.shape != want.shape or not np.array_equal(got, want):
        ctx.violation("bmat is not the block matrix of its blocks", replay, {"what": "bmat"})
    woff = [int(v) for v in np.cumsum(cs)[:-1]]
    if off != woff:
        ctx.violation("bmat(...).blocks are not the column offsets of the blocks (np.split(x, K.blocks) must "
                      "split a solution vector into the block components)", dict(replay, blocks=off, want=woff),
                      {"what": "bmat-blocks", "ncols": nc})


def check_composite_basis(ctx, m, minfo, kind, q, rng, fixed=None):
    """CompositeBasis: b1 * b2 (stacked numbering) and b1 @ b2 (shared numbering)"""
    from skfem import BilinearForm
    from skfem.utils import bmat
    shared = rng.random() < 0.4
    n = rng.randint(2, 3)
    if fixed is not None:
        specs, bks, shared = fixed
    elif shared:
        interior = [int(f) for f in np.nonzero(m.f2t[1] != -1)[0]]
        s = gen_vector(rng, kind, dims=False) if rng.random() < 0.3 else ["e", rng.choice(pool_names(kind, ("h1",)))]
        specs = [s] * 2
        if interior and kind != "wedge" and supported(m, kind, s, {"type": "interior"}, q):
            bks = [{"type": "interior", "side": 0}, {"type": "interior", "side": 1}]
        else:
            bks = [{"type": "cell"}] * 2
    else:
        specs = [gen_vector(rng, kind, dims=False) if rng.random() < 0.3 else gen_scalar(rng, kind) for _ in range(n)]
        bk = gen_bkind(rng, m)
        if not all(supported(m, kind, s, bk, q) for s in specs):
            bk = {"type": "cell"}
        bks = [bk] * n
    replay = {"clause": "CompositeBasis", "mesh": meshes.mesh_descr(m), "elements": specs,
              "names": [sname(s) for s in specs], "bases": bks, "shared numbering (@)": shared, "intorder": q}
    sig = {"names": [sname(s) for s in specs], "shared": shared}
    try:
        bs = [make_basis(m, build(s), bk, q) for s, bk in zip(specs, bks)]
        cb = bs[0]
        for b in bs[1:]:
            cb = (cb @ b) if shared else None
        if not shared:
            from skfem.assembly.basis.composite_basis import CompositeBasis
            cb = CompositeBasis(*bs) if len(bs) > 2 or rng.random() < 0.5 else bs[0] * bs[1]
        N = cb.N
        x = rand_vector(rng, N)
        replay["x"] = x.tolist()
    except Exception as ex:
        ctx.violation("building a CompositeBasis raised " + exc_kind(ex), dict(replay, err=repr(ex)),
                      dict(sig, what="raise-compositebasis"))
        return
    ctx.count("compositebasis:" + ("shared" if shared else "stacked"))
    offs = np.concatenate(([0], np.cumsum([b.N for b in bs])))
    if N != (bs[0].N if shared else offs[-1]):
        ctx.violation("CompositeBasis.N is wrong", dict(replay, N=int(N)), dict(sig, what="compositebasis-N"))
        return
    try:
        whole = cb.interpolate(x)
        parts = cb.split(x)
        for c, b in enumerate(bs):
            xc = x if shared else x[offs[c]:offs[c + 1]]
            msg = field_diff(whole[c], b.interpolate(xc))
            if msg is None and (len(parts[c][0]) != b.N):
                msg = "split() component has a wrong length"
            if msg is None:
                msg = field_diff(whole[c], parts[c][1].interpolate(np.asarray(parts[c][0])))
            if msg is not None:
                ctx.violation("CompositeBasis: split + interpolate of a component differs from the whole: " + msg,
                              dict(replay, component=c), dict(sig, what="compositebasis-split"))
    except Exception as ex:
        ctx.violation("CompositeBasis.interpolate/split raised " + exc_kind(ex), dict(replay, err=repr(ex)),
                      dict(sig, what="compositebasis-split"))
    # block structure
    try:
        sl = [slots_of(b) for b in bs]
        terms = gen_terms(rng, sl, sl, rng.randint(1, 2 * len(bs)))
        replay["terms"] = terms
        form = whole_integrand(terms, len(bs), len(bs), "comp", "comp")
        A = BilinearForm(form).assemble(cb)
        blocks = [[BilinearForm(block_integrand(terms, a, b_)).assemble(bs[a], bs[b_]) for a in range(len(bs))]
                  for b_ in range(len(bs))]
        if shared:
            B = sum(blocks[i][j] for i in range(len(bs)) for j in range(len(bs)))
        else:
            B = bmat(blocks)
        d, s = spdiff(A, B)
        if A.shape != B.shape or not close(d, s):
            ctx.violation(f"matrix on a CompositeBasis differs from the {'sum' if shared else 'block matrix'} of the "
                          f"component matrices (by {d:.3g})", replay, dict(sig, what="compositebasis-blocks"))
    except Exception as ex:
        ctx.violation("assembly on a CompositeBasis raised " + exc_kind(ex), dict(replay, err=repr(ex)),
                      dict(sig, what="raise-compositebasis-asm"))


def check_trilinear(ctx, rng):
    """N-tensors: toarray (slow path), todefault, tolocal orientation, + (small meshes only)"""
    from skfem import TrilinearForm, BilinearForm
    kind = rng.choice(["line", "tri", "quad", "tet"])
    m, info = meshes.gen_first_order(rng, kind, size=4 if kind in ("line",) else (5 if kind != "tet" else 5))
    if m.nelements > 8:
        m = m.restrict(list(range(6))) if hasattr(m, "restrict") else m
    names = [n for n in pool_names(kind, ("h1",)) if build(["e", n]).maxdeg <= 2 and "Pp" not in n and "QuadP" not in n]
    specs = [["e", rng.choice(names)] for _ in range(3)]
    q = 2
    replay = {"clause": "trilinear", "mesh": meshes.mesh_descr(m), "elements": [s[1] for s in specs]}
    try:
        ub, vb, wb = [make_basis(m, build(s), {"type": "cell"}, q) for s in specs]
        if ub.N * vb.N * wb.N > 40000:
            return
        su, sv, sw = [rng.choice(slots_of(b)) for b in (ub, vb, wb)]
        replay["slots"] = [list(su), list(sv), list(sw)]

        def tri(u, v, w, p):
            return get_slot(u, su) * get_slot(v, sv) * get_slot(w, sw) * wfun(1, p)
        T = TrilinearForm(tri).elemental(ub, vb, wb)
        A = T.toarray()
        ind = dense_scatter(T.indices, T.data, tuple(int(s) for s in T.shape))
        ctx.count("trilinear")
        if tuple(int(s) for s in T.shape) != (wb.N, vb.N, ub.N) or not np.allclose(A, ind, rtol=0, atol=1e-13):
            ctx.violation("3-tensor toarray() differs from the scatter of its entries", replay,
                          {"what": "trilinear-toarray"})
        if T.todefault() is not T:
            ctx.violation("3-tensor todefault() is not the COOData itself", replay, {"what": "trilinear-todefault"})
        # contraction with a coefficient vector = bilinear form with that coefficient
        kp = rand_vector(rng, wb.N)
        kf = wb.interpolate(kp)

        def bil(u, v, p):
            return get_slot(u, su) * get_slot(v, sv) * get_slot(kf, sw) * wfun(1, p)
        Bm = BilinearForm(bil).assemble(ub, vb).toarray()
        C = np.einsum("ijk,i->jk", A, kp)
        if not close(float(np.abs(C - Bm).max()), float(np.abs(Bm).max())):
            ctx.violation("3-tensor contracted with a coefficient vector differs from the bilinear form with that "
                          "coefficient", replay, {"what": "trilinear-contract"})
        L = T.tolocal()
        if L.shape != (m.nelements, wb.Nbfun, vb.Nbfun, ub.Nbfun):
            ctx.violation(f"3-tensor tolocal() has shape {L.shape}, expected (cells, Nw, Nv, Nu)", replay,
                          {"what": "tolocal-orientation", "tensor": 3})
        else:
            out = np.zeros(A.shape)
            for a in range(wb.Nbfun):
                for b in range(vb.Nbfun):
                    for c in range(ub.Nbfun):
                        np.add.at(out, (wb.element_dofs[a], vb.element_dofs[b], ub.element_dofs[c]), L[:, a, b, c])
            if not close(float(np.abs(out - A).max()), float(np.abs(A).max())):
                ctx.violation("3-tensor tolocal()[k][a][b][c] is not the entry scattered to (w dof a, v dof b, u dof "
                              "c)", replay, {"what": "tolocal-orientation", "tensor": 3})
            if not np.array_equal(T.fromlocal(L).toarray(), T.toarray()):
                ctx.violation("3-tensor fromlocal(tolocal()) is not the identity", replay, {"what": "local-roundtrip"})
        S = T + T
        if not np.allclose(S.toarray(), 2 * A, rtol=0, atol=1e-12):
            ctx.violation("3-tensor + is not the sum", replay, {"what": "coo-add"})
    except Exception as ex:
        ctx.violation("trilinear form / 3-tensor operation raised " + exc_kind(ex), dict(replay, err=repr(ex)),
                      {"what": "raise-trilinear"})


def check_partial(ctx, m, minfo, kind, q, rng):
    from skfem import BilinearForm, LinearForm
    name = rng.choice(pool_names(kind, ("h1",)))
    c = rng.randint(2, 5)
    replay = {"clause": "Form.partial", "mesh": meshes.mesh_descr(m), "element": name, "c": c}
    try:
        b = make_basis(m, build(["e", name]), {"type": "cell"}, q)

        def f(u, v, w, c=1.0):
            return c * (u * v + u.grad[0] * v)

        def g(z, v, w):
            return z * v
        F = BilinearForm(f)
        A1 = F.assemble(b)
        A2 = F.partial(c=float(c)).assemble(b)
        A3 = F.assemble(b)
        x = rand_vector(rng, b.N)
        z = b.interpolate(x)
        l1 = LinearForm(g).partial(z).assemble(b)
        l2 = LinearForm(lambda v, w: z * v).assemble(b)
    except Exception as ex:
        ctx.violation("Form.partial raised " + exc_kind(ex), dict(replay, err=repr(ex)), {"what": "raise-partial"})
        return
    ctx.count("form.partial")
    d, s = spdiff(A2, c * A1)
    d3, _ = spdiff(A3, A1)
    if not close(d, s * c) or d3 != 0.0 or not close(float(np.abs(l1 - l2).max()), float(np.abs(l2).max())):
        ctx.violation("Form.partial does not bind the given arguments (or modifies the original form)", replay,
                      {"what": "form-partial"})


# --------------------------------------------------------------------------
# correspondence of the Lean model (Model/Blocks.lean) with the implementation

def topo_json(m):
    d3 = m.dim() == 3
    return {"dim": int(m.dim()), "nverts": int(m.nvertices), "nedges": int(m.edges.shape[1]) if d3 else 0,
            "nfacets": int(m.nfacets), "nt": int(m.nelements), "t": m.t.tolist(),
            "t2e": m.t2e.tolist() if d3 else [], "t2f": m.t2f.tolist()}


def fields_equal(a, b):
    return field_diff(a, b) is None


def field_is_zero(a):
    return all(x is None or not np.asarray(x).any() for x in a.astuple)


def correspondence(ctx, ncases):
    from skfem.assembly.form.coo_data import COOData
    from skfem.assembly.basis.composite_basis import CompositeBasis
    from skfem.utils import bmat
    import scipy.sparse as sp
    rng = ctx.rng
    reqs, cont = [], []

    def add(req, fn):
        reqs.append(req)
        cont.append(fn)

    for it in range(ncases):
        m, info = gen_mesh(rng)
        kind = info["kind"]
        # ---- composite: split_indices, _deduce_bfun, per-cell table, gbasis placement
        spec = gen_composite(rng, kind)
        try:
            E = build(spec)
            wb = make_basis(m, E, {"type": "cell"}, 1)
            cbs = [make_basis(m, build(s), {"type": "cell"}, 1) for s in spec[1]]
        except Exception as ex:
            ctx.corr("blocks.split_composite", False, {"element": sname(spec)}, None, "raised " + repr(ex))
            continue
        cs = [elements.counts(b.elem) for b in cbs]
        rd = E.refdom
        req = dict(topo_json(m), op="blocks.split_composite", counts=cs)

        def k1(out, wb=wb, spec=spec, m=m):
            impl = {"split": [np.asarray(s).tolist() for s in wb.split_indices()],
                    "element_dofs": wb.dofs.element_dofs.tolist(), "N": int(wb.N),
                    "wrapper_counts": elements.counts(wb.elem)}
            model = {k: out.get(k) for k in impl}
            ctx.corr("blocks.split_composite", model == impl,
                     {"element": sname(spec), "mesh": meshes.mesh_descr(m)}, model, impl)
        add(req, k1)
        req = {"op": "blocks.deduce_bfun", "counts": cs, "ref": [int(rd.nnodes), int(rd.nedges), int(rd.nfacets)]}

        def k2(out, E=E, wb=wb, cbs=cbs, spec=spec):
            nb = int(wb.Nbfun)
            impl = [[int(v) for v in E._deduce_bfun(i)] for i in range(nb)]
            ok = out.get("n") == nb and out.get("dec") == impl and \
                out.get("nbfun") == [int(b.Nbfun) for b in cbs]
            ctx.corr("blocks.deduce_bfun", ok, {"element": sname(spec)}, out, impl)
            # the model's (component, function) is where gbasis puts the component's function
            if ok:
                good = True
                for i, (n, ind) in enumerate(out["dec"]):
                    for c in range(len(cbs)):
                        if c == n:
                            good &= fields_equal(wb.basis[i][c], cbs[n].basis[ind][0])
                        else:
                            good &= field_is_zero(wb.basis[i][c])
                    # the row of the per-cell table is the component's row renamed by split_indices
                    si = np.asarray(wb.split_indices()[n])
                    good &= bool(np.array_equal(wb.element_dofs[i], si[cbs[n].element_dofs[ind]]))
                ctx.corr("blocks.deduce_bfun-layout", good, {"element": sname(spec)})
        add(req, k2)
        # ---- vector
        vspec = gen_vector(rng, kind)
        while vspec[1][0] == "vec":
            vspec = gen_vector(rng, kind)
        try:
            V = build(vspec)
            vb = make_basis(m, V, {"type": "cell"}, 1)
            sb = make_basis(m, build(vspec[1]), {"type": "cell"}, 1)
        except Exception as ex:
            ctx.corr("blocks.split_vector", False, {"element": sname(vspec)}, None, "raised " + repr(ex))
            continue
        nc = int(V.dim)
        req = dict(topo_json(m), op="blocks.split_vector", counts=elements.counts(sb.elem), ncomp=nc)

        def k3(out, vb=vb, vspec=vspec, m=m):
            impl = {"split": [np.asarray(s).tolist() for s in vb.split_indices()],
                    "element_dofs": vb.dofs.element_dofs.tolist(), "N": int(vb.N),
                    "wrapper_counts": elements.counts(vb.elem)}
            model = {k: out.get(k) for k in impl}
            ctx.corr("blocks.split_vector", model == impl,
                     {"element": sname(vspec), "mesh": meshes.mesh_descr(m)}, model, impl)
        add(req, k3)
        req = {"op": "blocks.vec_decode", "ncomp": nc, "n": int(vb.Nbfun)}

        def k4(out, vb=vb, sb=sb, nc=nc, vspec=vspec):
            good = len(out) == vb.Nbfun and vb.Nbfun == nc * sb.Nbfun
            if good:
                for i, (n, ind) in enumerate(out):
                    f = vb.basis[i][0]
                    for c in range(nc):
                        sub = sub_field(f, c)
                        good &= fields_equal(sub, sb.basis[ind][0]) if c == n else field_is_zero(sub)
            ctx.corr("blocks.vec_decode", good, {"element": sname(vspec)}, out, "gbasis placement")
        add(req, k4)
        # ---- CompositeBasis stacking
        if it % 3 == 0:
            specs = [gen_scalar(rng, kind) for _ in range(rng.randint(2, 3))]
            try:
                bs = [make_basis(m, build(s), {"type": "cell"}, 1) for s in specs]
                cb = CompositeBasis(*bs)
                req = {"op": "blocks.stack_decode", "nbs": [int(b.Nbfun) for b in bs], "Ns": [int(b.N) for b in bs]}

                def k5(out, cb=cb, bs=bs, specs=specs):
                    good = len(out["dec"]) == cb.Nbfun
                    if good:
                        for r, (n, p) in enumerate(out["dec"]):
                            good &= bool(np.array_equal(cb.element_dofs[r], bs[n].element_dofs[p] + out["offsets"][n]))
                            for c in range(len(bs)):
                                good &= fields_equal(cb.basis[r][c], bs[n].basis[p][0]) if c == n \
                                    else field_is_zero(cb.basis[r][c])
                    ctx.corr("blocks.stack_decode", good, {"elements": [sname(s) for s in specs]}, out,
                             "CompositeBasis.element_dofs / .basis")
                add(req, k5)
            except Exception as ex:
                ctx.corr("blocks.stack_decode", False, {"elements": [sname(s) for s in specs]}, None, repr(ex))
    # ---- tolocal / fromlocal index maps on integer data
    for it in range(max(6, ncases // 2)):
        Nu, Nv, nt = rng.randint(1, 5), rng.randint(1, 5), rng.randint(1, 4)
        if it == 0:
            Nu, Nv, nt = 6, 3, 2
        data = list(range(1, Nu * Nv * nt + 1))
        rng.shuffle(data)
        loc = [rng.randint(-50, 50) for _ in range(Nu * Nv * nt)]
        req = {"op": "blocks.tolocal", "Nu": Nu, "Nv": Nv, "nt": nt, "data": data, "local": loc}

        def k6(out, Nu=Nu, Nv=Nv, nt=nt, data=data, loc=loc):
            ind = np.zeros((2, Nu * Nv * nt), dtype=np.int32)
            c = COOData(ind, np.array(data, dtype=float), (1, 1), (Nv, Nu))
            impl = np.asarray(c.tolocal())
            inp = {"Nu": Nu, "Nv": Nv, "nt": nt, "data": data}
            ctx.corr("blocks.tolocal", impl.shape == (nt, Nv, Nu) and impl.astype(int).tolist() == out["tolocal"],
                     inp, out["tolocal"], impl.tolist())
            L = np.array(loc, dtype=float).reshape((nt, Nv, Nu))
            impl = c.fromlocal(L).data
            ctx.corr("blocks.fromlocal", impl.astype(int).tolist() == out["fromlocal"], dict(inp, local=loc),
                     out["fromlocal"], impl.tolist())
        add(req, k6)
        data1 = data[:Nv * nt]
        req = {"op": "blocks.tolocal", "Nu": 1, "Nv": Nv, "nt": nt, "data": data1, "local": loc[:Nv * nt]}

        def k7(out, Nv=Nv, nt=nt, data1=data1, loc=loc):
            c1 = COOData(np.zeros((1, Nv * nt), dtype=np.int32), np.array(data1, dtype=float), (1,), (Nv,))
            impl = np.asarray(c1.tolocal())
            ctx.corr("blocks.tolocal-linear", impl.shape == (nt, Nv) and impl.astype(int).tolist() == out["tolocal_lin"],
                     {"Nv": Nv, "nt": nt, "data": data1}, out["tolocal_lin"], impl.tolist())
            L = np.array(loc[:Nv * nt], dtype=float).reshape((nt, Nv))
            impl = c1.fromlocal(L).data
            ctx.corr("blocks.fromlocal-linear", impl.astype(int).tolist() == out["fromlocal_lin"],
                     {"Nv": Nv, "nt": nt}, out["fromlocal_lin"], impl.tolist())
        add(req, k7)
    # ---- dot, dense, + on exactly representable data
    for it in range(max(6, ncases // 2)):
        n = rng.randint(1, 6)
        nnz, nnz2 = rng.randint(0, 14), rng.randint(0, 8)
        rows = [rng.randrange(n) for _ in range(nnz)]
        cols = [rng.randrange(n) for _ in range(nnz)]
        data = [rng.randint(-16, 16) / 8 for _ in range(nnz)]
        rows2 = [rng.randrange(n) for _ in range(nnz2)]
        cols2 = [rng.randrange(n) for _ in range(nnz2)]
        data2 = [rng.randint(-16, 16) / 8 for _ in range(nnz2)]
        x = [rng.randint(-16, 16) / 8 for _ in range(n)]
        D = sorted(rng.sample(range(n), rng.randint(0, n)))
        req = {"op": "coo.dot", "rows": rows, "cols": cols, "data": [qstr(v) for v in data], "x": [qstr(v) for v in x],
               "n": n, "nc": n, "D": D, "rows2": rows2, "cols2": cols2, "data2": [qstr(v) for v in data2]}

        def k8(out, req=req, rows=rows, cols=cols, data=data, rows2=rows2, cols2=cols2, data2=data2, x=x, D=D, n=n):
            c = COOData(np.array([rows, cols], dtype=np.int32).reshape(2, -1), np.array(data, dtype=float), (n, n), None)
            c2 = COOData(np.array([rows2, cols2], dtype=np.int32).reshape(2, -1), np.array(data2, dtype=float),
                         (n, n), None)
            xv = np.array(x)

            def same(model, impl):
                mv = np.array([[float(v) for v in r] for r in model]) if model and isinstance(model[0], list) \
                    else np.array([float(v) for v in model])
                return mv.shape == np.shape(impl) and bool(np.array_equal(mv, np.asarray(impl)))
            inp = {k: req[k] for k in ("rows", "cols", "data", "x", "D")}
            ctx.corr("coo.dot", same(unq(out["dot"]), c.dot(xv)), inp, out["dot"], c.dot(xv).tolist())
            ctx.corr("coo.dot-D", same(unq(out["dotD"]), c.dot(xv, D=np.array(D, dtype=np.int64))), inp, out["dotD"],
                     c.dot(xv, D=np.array(D, dtype=np.int64)).tolist())
            ctx.corr("coo.toarray", same(unq(out["dense"]), c.toarray()), inp, out["dense"], c.toarray().tolist())
            s = c + c2
            ctx.corr("coo.add", same(unq(out["sum_dense"]), s.toarray()), inp, out["sum_dense"], s.toarray().tolist())
        add(req, k8)
    # ---- bmat block offsets
    for it in range(max(4, ncases // 3)):
        widths = [rng.randint(1, 5) for _ in range(rng.randint(1, 6))]
        req = {"op": "blocks.bmat_blocks", "widths": widths}

        def k9(out, widths=widths):
            B = bmat([[sp.csr_matrix((2, w)) for w in widths]])
            impl = [int(v) for v in B.blocks]
            ctx.corr("blocks.bmat_blocks", impl == out["blocks"], {"widths": widths}, out["blocks"], impl)
        add(req, k9)
    if not ctx.driver.available():
        ctx.broken.append({"kind": "driver-missing"})
        return
    outs = ctx.driver.run(reqs)
    for out, fn, req in zip(outs, cont, reqs):
        if isinstance(out, dict) and "error" in out:
            ctx.corr(req["op"], False, req, out, None)
            continue
        try:
            fn(out)
        except Exception as ex:
            ctx.corr(req["op"], False, {"op": req["op"]}, "exception while comparing", repr(ex))


# --------------------------------------------------------------------------
# fixed witnesses (the inputs on which the pinned tree failed) and the driver loop

def small_tri():
    from skfem import MeshTri
    return MeshTri().refined(1), {"kind": "tri", "gen": "witness"}


def small_tet():
    from skfem import MeshTet
    return MeshTet(), {"kind": "tet", "gen": "witness"}


def witnesses(ctx):
    import random
    rng = random.Random(19)
    m, info = small_tri()
    p2, p1 = ["e", "ElementTriP2"], ["e", "ElementTriP1"]
    # F17: non-symmetric square form and rectangular form (P2 trial, P1 test)
    check_coo(ctx, m, info, p2, p2, {"type": "cell"}, 3, rng)
    check_coo(ctx, m, info, p2, p1, {"type": "cell"}, 3, rng)
    # tolocal(basis=...) with interior facets
    check_coo(ctx, m, info, p1, p1, {"type": "interior", "side": 0}, 2, rng)
    # ElementVector(elem, dim) whose number of components is not the spatial dimension
    mt, it = small_tet()
    vec = ["vec", ["e", "ElementTetP2"], 2]
    check_split(ctx, mt, it, vec, {"type": "cell"}, 2, rand_vector(rng, 2 * 14 + 100))
    check_split(ctx, m, info, ["vec", p2, 1], {"type": "cell"}, 2, rand_vector(rng, 200))
    # split() of a basis restricted to some cells / facets / the other side
    th = ["comp", [["vec", p2, None], p1]]
    check_split(ctx, m, info, th, {"type": "cell", "elements": [1, 4, 6]}, 2, rand_vector(rng, 400))
    check_split(ctx, m, info, th, {"type": "facet", "facets": [0, 1, 5]}, 2, rand_vector(rng, 400))
    check_split(ctx, m, info, th, {"type": "interior", "side": 1}, 2, rand_vector(rng, 400))
    # block structure / Form.block / bmat offsets with four components
    check_blocks(ctx, m, info, th, th, {"type": "cell"}, 3, rng)
    four = ["comp", [p1, p2, ["e", "ElementTriP0"], p1]]
    check_blocks(ctx, m, info, four, four, {"type": "cell"}, 2, rng)
    for _ in range(3):
        check_bmat(ctx, rng)
    check_asm_lists(ctx, m, info, th, 2, rng)
    check_asm_lists(ctx, m, info, th, 2, rng, facets=True)
    # CompositeBasis: unlike components stacked (*), the two sides of the interior facets sharing
    # the numbering (@)
    check_composite_basis(ctx, m, info, "tri", 2, rng,
                          fixed=([["vec", p1, None], p1, ["e", "ElementTriRT1"]], [{"type": "cell"}] * 3, False))
    check_composite_basis(ctx, m, info, "tri", 2, rng,
                          fixed=([p1, p1], [{"type": "interior", "side": 0}, {"type": "interior", "side": 1}], True))
    ctx.count("witnesses", 16)


def one_round(ctx, it):
    rng = ctx.rng
    m, info = gen_mesh(rng)
    kind = info["kind"]
    q = rng.randint(1, 3)
    ctx.count("mesh:" + kind)
    sel = it % 5
    if sel == 0:
        # S1 (twice: cheap)
        for _ in range(2):
            spec = gen_wrapper(rng, kind)
            bk = gen_bkind(rng, m)
            if not supported(m, kind, spec, bk, q):
                ctx.count("skipped-unsupported-basis")
                continue
            try:
                N = make_basis(m, build(spec), {"type": "cell"}, 1).N
            except Exception as ex:
                ctx.violation("building a wrapper basis raised " + exc_kind(ex),
                              {"mesh": meshes.mesh_descr(m), "element": spec, "err": repr(ex)},
                              {"what": "raise-basis", "element": sname(spec)})
                continue
            x = rand_vector(rng, N, cplx=rng.random() < 0.1)
            check_split(ctx, m, info, spec, bk, q, x)
            ctx.case({"clause": "split", "t": m.t.tolist(), "el": sname(spec), "bk": bk},
                     nontrivial=m.nelements >= 2 and spec[0] != "e",
                     sample={"clause": "split/interpolate", "mesh": info, "element": sname(spec), "basis": bk}
                     if it < 5 else None)
    elif sel == 1:
        uspec = gen_wrapper(rng, kind)
        vspec = uspec if rng.random() < 0.4 else gen_wrapper(rng, kind)
        bk = gen_bkind(rng, m)
        if not (supported(m, kind, uspec, bk, q) and supported(m, kind, vspec, bk, q)):
            ctx.count("skipped-unsupported-basis")
            return
        check_blocks(ctx, m, info, uspec, vspec, bk, q, rng)
        ctx.case({"clause": "blocks", "t": m.t.tolist(), "u": sname(uspec), "v": sname(vspec), "bk": bk},
                 nontrivial=m.nelements >= 2,
                 sample={"clause": "block structure", "mesh": info, "trial": sname(uspec), "test": sname(vspec),
                         "basis": bk} if it < 10 else None)
    elif sel == 2:
        spec = gen_wrapper(rng, kind)
        fac = rng.random() < 0.4 and kind != "wedge" and supported(m, kind, spec, {"type": "facet"}, q)
        check_asm_lists(ctx, m, info, spec, q, rng, facets=fac)
        check_asm_product(ctx, m, info, kind, q, rng)
        ctx.case({"clause": "asm-list", "t": m.t.tolist(), "el": sname(spec), "fac": fac}, nontrivial=m.nelements >= 2)
    elif sel == 3:
        uspec = gen_wrapper(rng, kind)
        vspec = uspec if rng.random() < 0.5 else gen_wrapper(rng, kind)
        bk = gen_bkind(rng, m)
        if not (supported(m, kind, uspec, bk, q) and supported(m, kind, vspec, bk, q)):
            ctx.count("skipped-unsupported-basis")
            return
        check_coo(ctx, m, info, uspec, vspec, bk, q, rng)
        ctx.case({"clause": "coo", "t": m.t.tolist(), "u": sname(uspec), "v": sname(vspec), "bk": bk},
                 nontrivial=m.nelements >= 2,
                 sample={"clause": "COOData", "mesh": info, "trial": sname(uspec), "test": sname(vspec),
                         "basis": bk} if it < 15 else None)
    else:
        check_bmat(ctx, rng)
        check_composite_basis(ctx, m, info, kind, q, rng)
        check_partial(ctx, m, info, kind, q, rng)
        if it % 20 == 4:
            check_trilinear(ctx, rng)
        ctx.case({"clause": "misc", "t": m.t.tolist(), "it": it}, nontrivial=True)


def run(ctx):
    ctx.rule = (
        "random first-order meshes of all six cell classes (renumbered, permuted, locally re-ordered, holes) x random "
        "wrappers: ElementVector of every H1 element (also DG-wrapped, global, vector-of-vector, explicit number of "
        "components 1..3), ElementComposite of 2-4 components drawn from H1/H(div)/H(curl)/DG/global families with "
        "different DOF layouts and nested ElementVector, CompositeBasis (* and @) x cell / cell-subset / boundary-facet / "
        "facet-subset / interior-facet (side 0/1) bases x random non-symmetric coupling integrands (random slots of "
        "value/grad/div/curl of every component, random coefficients, x-dependent weight) x random (also complex) "
        "coefficient vectors x random partitions of cells and of facet sets. Clauses cycle: split/interpolate, block "
        "structure (+Form.block, load vectors, bmat offsets), asm over lists (partitions, products, callables, "
        "functionals), COOData (conversions, dot, +, tolocal/fromlocal/inverse, tolocal(basis=facets), linear forms), "
        "bmat / CompositeBasis / Form.partial / trilinear 3-tensors. A case is one (mesh, elements, basis) per clause; "
        "non-trivial = at least two cells and a genuine wrapper.")
    ctx.trusted += ["Lean kernel; axioms propext/Classical.choice/Quot.sound",
                    "models in Model/Blocks.lean hand-written; tied by exact correspondence (ops blocks.*, coo.*) to "
                    "split_indices, _deduce_bfun, gbasis placement, element_dofs of wrappers, CompositeBasis stacking, "
                    "tolocal/fromlocal, dot, +, bmat offsets on every run",
                    "NumPy reshape/transpose/hstack/add.at and scipy.sparse coo->csr summation of duplicates (validated by "
                    "the correspondence and by an independent np.add.at scatter in the search)"]
    ctx.assumptions += ["the hypotheses `Wraps` of the interpolation/block theorems (wrapper function j = component "
                        "function dec(j), DOFs renamed by split_indices) are established for the implementation by "
                        "correspondence (blocks.deduce_bfun-layout, blocks.vec_decode, blocks.stack_decode), the DOF "
                        "part is also proved from the DOF tables (C19_deduce_bfun_layout, C19_vector_row)",
                        "COOData.dot is exercised on square tensors only (its result has the length of x by construction)",
                        "Form.block can only be compared with the component form when the components of the trial "
                        "(and of the test) wrapper share one field structure and are equally many; otherwise its "
                        "placeholders have the wrong shape (known finding)",
                        "facet bases are not available on wedge meshes; ElementTriN3 cannot be evaluated on facet "
                        "bases (skipped there)",
                        "inverse(): per-cell inverses checked for well conditioned local matrices (cond < 1e6)"]
    if not getattr(ctx, "no_lean", False):
        ctx.prove(["SkfemVerif.Props.C19"], ["SkfemVerif/Props/C19.lean"])
    try:
        witnesses(ctx)
    except Exception as ex:
        ctx.violation("a fixed witness input raised " + exc_kind(ex), {"err": repr(ex)}, {"what": "raise-witness"})
    correspondence(ctx, ctx.scale(24, 160))
    n = ctx.scale(1500, 15000)
    frac = 0.5 if ctx.tier == "quick" else 0.55
    for it in range(n):
        if ctx.time_left(frac) < 0:
            break
        try:
            one_round(ctx, it)
        except Exception as ex:
            import traceback
            ctx.violation("the search raised outside the guarded calls: " + exc_kind(ex),
                          {"err": repr(ex), "trace": traceback.format_exc()[-1500:]}, {"what": "raise-search"})
    ctx.notes["rounds"] = it + 1
    if ctx.tier == "thorough" and not getattr(ctx, "no_lean", False):
        ctx.leanchecker(["SkfemVerif.Props.C19"])
