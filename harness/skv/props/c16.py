"""C16  Threaded assembly equals serial assembly under every schedule."""
import itertools
import sys
import threading

import numpy as np

from .. import meshes, elements, fields
from ..core import exc_kind


class FakeBasis:
    """duck-typed basis with arbitrary (rectangular) local sizes and exactly representable data;
    basis function j carries the constant value `tag + j` so the integrand can tell which pair it
    is evaluating"""

    def __init__(self, nbfun, nt, nq, tag, rng):
        from skfem.element import DiscreteField
        self.Nbfun = nbfun
        self.nelems = nt
        self.X = np.zeros((1, nq))
        self.dx = np.array([[rng.randint(1, 4) / 4 for _ in range(nq)] for _ in range(nt)])
        self.N = nbfun * nt
        self.element_dofs = np.arange(nbfun * nt, dtype=np.int32).reshape(nbfun, nt)
        self.basis = [(DiscreteField(np.full((nt, nq), float(tag + j))),) for j in range(nbfun)]

    def default_parameters(self):
        return {}


def checksums(b):
    out = []
    for bf in b.basis:
        for f in bf:
            for a in f.astuple:
                if a is not None:
                    out.append(np.asarray(a).tobytes())
    out.append(np.asarray(b.dx).tobytes())
    return out


class Scheduler:
    """forces a given global order of kernel invocations (schedule at kernel granularity)"""

    def __init__(self, order):
        self.order = list(order)
        self.pos = 0
        self.cv = threading.Condition()
        self.timeouts = 0
        self.entered = []          # order in which the kernel invocations were admitted (under the lock)

    def enter(self, pair):
        with self.cv:
            ok = self.cv.wait_for(lambda: self.pos < len(self.order) and self.order[self.pos] == pair, timeout=20.0)
            if not ok:
                self.timeouts += 1
                return
            self.pos += 1
            self.entered.append(pair)
            self.cv.notify_all()


def run_threaded(Nu, Nv, nthreads, rng, schedule=None):
    """returns (matrix data of threaded run, serial data, log of (thread, i, j), timeouts, inputs unchanged?)"""
    from skfem import BilinearForm
    nt, nq = 2, 2
    ub = FakeBasis(Nu, nt, nq, 1000, rng)
    vb = FakeBasis(Nv, nt, nq, 2000, rng)
    vb.dx = ub.dx
    log = []
    sched = Scheduler(schedule) if schedule is not None else None

    def form(u, v, w):
        j = int(round(float(np.asarray(u)[0, 0]))) - 1000
        i = int(round(float(np.asarray(v)[0, 0]))) - 2000
        if sched is not None:
            sched.enter((i, j))
        log.append((threading.current_thread().name, i, j))
        return (u - 1000 + 1) * (v - 2000 + 3) + 7 * (u - 1000)   # non-symmetric in (i, j)

    before = checksums(ub) + checksums(vb)
    old = sys.getswitchinterval()
    sys.setswitchinterval(1e-6)
    try:
        thr = BilinearForm(form, nthreads=nthreads)._assemble(ub, vb)
    finally:
        sys.setswitchinterval(old)
    after = checksums(ub) + checksums(vb)
    tlog = list(log)
    log.clear()
    run_threaded.timeouts = sched.timeouts if sched is not None else 0
    run_threaded.entered = list(sched.entered) if sched is not None else None
    sched = None
    ser = BilinearForm(form)._assemble(ub, vb)
    return thr, ser, tlog, before == after


run_threaded.timeouts = 0


def linear_extensions(chunks, limit, rng):
    """interleavings of the chunks (each chunk in order); all of them if few, else a random sample"""
    chunks = [c for c in chunks if c]
    total = 1
    rem = sum(len(c) for c in chunks)
    import math
    total = math.factorial(rem)
    for c in chunks:
        total //= math.factorial(len(c))
    out = []
    if total <= limit:
        def rec(pos, acc):
            if all(pos[k] == len(chunks[k]) for k in range(len(chunks))):
                out.append(list(acc))
                return
            for k in range(len(chunks)):
                if pos[k] < len(chunks[k]):
                    acc.append(chunks[k][pos[k]])
                    pos[k] += 1
                    rec(pos, acc)
                    pos[k] -= 1
                    acc.pop()
        rec([0] * len(chunks), [])
        return out, True
    for _ in range(limit):
        pos = [0] * len(chunks)
        acc = []
        while True:
            live = [k for k in range(len(chunks)) if pos[k] < len(chunks[k])]
            if not live:
                break
            k = rng.choice(live)
            acc.append(chunks[k][pos[k]])
            pos[k] += 1
        out.append(acc)
    return out, False


def run(ctx):
    from skfem import BilinearForm, Basis
    ctx.rule = ("(a) every (Nu, Nv) in 1..4 x 1..4 (quick) / 1..6 x 1..6 (thorough) and every thread count "
                "1..Nu*Nv+2 on a duck-typed basis whose functions are tagged so the integrand logs (thread, pair); "
                "(b) forced schedules: all interleavings of the worker sequences when few, random ones otherwise, "
                "imposed on the real threads at kernel granularity by a condition variable inside the integrand; "
                "(c) real bases: threaded vs serial matrices bitwise. distinct = (Nu, Nv, n, schedule); non-trivial "
                "= more than one worker has work")
    ctx.trusted += ["Lean kernel; axioms propext/Classical.choice/Quot.sound",
                    "model Skv.threadChunks/Interleaving/runSchedule hand-written; chunks tied by exact "
                    "correspondence with the per-thread invocation sequences observed inside the integrand",
                    "CPython: a slice assignment into disjoint memory is not torn; Thread.join is a barrier"]
    ctx.assumptions += ["purity of the user integrand (kernel depends on the slot only) is a hypothesis of "
                        "C16_threaded_eq_serial; races inside NumPy calls are not modelled"]
    if not getattr(ctx, "no_lean", False):
        ctx.prove(["SkfemVerif.Props.C16"], ["SkfemVerif/Props/C16.lean"])
    maxn = ctx.scale(4, 6)
    combos = [(Nu, Nv, n) for Nu in range(1, maxn + 1) for Nv in range(1, maxn + 1)
              for n in range(1, Nu * Nv + 3)]
    if ctx.tier == "quick":
        # all small ones, sample of the rest
        small = [c for c in combos if c[0] * c[1] <= 6]
        rest = [c for c in combos if c[0] * c[1] > 6]
        ctx.rng.shuffle(rest)
        combos = small + rest[:60]
    reqs = [{"op": "threads.chunks", "Nu": Nu, "Nv": Nv, "n": n} for (Nu, Nv, n) in combos]
    model = ctx.driver.run(reqs) if ctx.driver.available() else None
    if model is None:
        ctx.broken.append({"kind": "driver-missing"})
    for idx, (Nu, Nv, n) in enumerate(combos):
        if ctx.time_left(0.6) < 0:
            break
        try:
            thr, ser, log, unchanged = run_threaded(Nu, Nv, n, ctx.rng)
        except Exception as ex:
            ctx.violation("threaded assembly raised " + exc_kind(ex), {"Nu": Nu, "Nv": Nv, "nthreads": n,
                                                                       "err": repr(ex)}, {"what": "raise"})
            continue
        ctx.case({"Nu": Nu, "Nv": Nv, "n": n}, nontrivial=n > 1 and Nu * Nv > 1,
                 sample={"Nu": Nu, "Nv": Nv, "nthreads": n} if idx in (5, 40) else None)
        ctx.count("threads>pairs" if n > Nu * Nv else "threads<=pairs")
        inp = {"Nu": Nu, "Nv": Nv, "nthreads": n}
        same = (np.array_equal(thr[0], ser[0]) and thr[1].tobytes() == ser[1].tobytes()
                and thr[2] == ser[2] and thr[3] == ser[3])
        if not same:
            ctx.violation("threaded assembly differs from serial assembly", inp, {"what": "threaded!=serial"})
        pairs = [(i, j) for (_, i, j) in log]
        want = [(i, j) for j in range(Nu) for i in range(Nv)]
        if sorted(pairs) != sorted(want):
            ctx.violation("a local index pair was not computed exactly once by the workers",
                          dict(inp, computed=pairs), {"what": "not-once"})
        if not unchanged:
            ctx.violation("threaded assembly modified its shared inputs", inp, {"what": "inputs-modified"})
        # correspondence: per-thread sequences == model chunks
        if model is not None:
            seqs = {}
            for (tid, i, j) in log:
                seqs.setdefault(tid, []).append([i, j])
            got = sorted(seqs.values())
            mch = sorted(c for c in model[idx] if c)
            ctx.corr("threads.chunks", got == mch and len(model[idx]) == n, inp, model[idx], got)
    # (b) forced schedules
    sched_cases = [(2, 2, 2), (2, 2, 3), (1, 3, 2), (3, 1, 3), (2, 3, 2), (2, 2, 4), (3, 2, 4)]
    if ctx.tier == "thorough":
        sched_cases += [(3, 3, 2), (3, 3, 3), (2, 4, 3), (4, 2, 5), (3, 3, 9)]
    limit = ctx.scale(20, 400)
    nsched = 0
    for (Nu, Nv, n) in sched_cases:
        if model is None:
            break
        chunks = ctx.driver.run([{"op": "threads.chunks", "Nu": Nu, "Nv": Nv, "n": n}])[0]
        chunks = [[tuple(p) for p in c] for c in chunks]
        scheds, complete = linear_extensions(chunks, limit, ctx.rng)
        for s in scheds:
            if ctx.time_left(0.85) < 0:
                break
            try:
                thr, ser, log, unchanged = run_threaded(Nu, Nv, n, ctx.rng, schedule=s)
            except Exception as ex:
                ctx.violation("threaded assembly raised under a forced schedule " + exc_kind(ex),
                              {"Nu": Nu, "Nv": Nv, "nthreads": n, "schedule": s, "err": repr(ex)}, {"what": "raise"})
                continue
            nsched += 1
            ctx.case({"Nu": Nu, "Nv": Nv, "n": n, "schedule": s}, nontrivial=True,
                     sample={"Nu": Nu, "Nv": Nv, "nthreads": n, "schedule": s} if nsched == 3 else None)
            # the admission order recorded under the scheduler's lock (appending to the log happens after the
            # lock is released and may be overtaken)
            order = run_threaded.entered if run_threaded.entered is not None else [(i, j) for (_, i, j) in log]
            if sorted((i, j) for (_, i, j) in log) != sorted(tuple(p) for p in s):
                ctx.violation("a local index pair was not computed exactly once under a forced schedule",
                              {"Nu": Nu, "Nv": Nv, "nthreads": n, "schedule": s}, {"what": "not-once"})
            inp = {"Nu": Nu, "Nv": Nv, "nthreads": n, "schedule": s}
            if order != list(s) and run_threaded.timeouts:
                ctx.count("forced-schedule-timed-out(machine load, inconclusive)")
            elif order != list(s):
                # the implementation's workers could not follow a schedule admissible for the model's chunks
                ctx.corr("threads.schedule-admissible", False, inp, s, order)
            else:
                ctx.corr("threads.schedule-admissible", True)
            if not (thr[1].tobytes() == ser[1].tobytes() and np.array_equal(thr[0], ser[0])):
                ctx.violation("threaded assembly differs from serial assembly under a forced schedule", inp,
                              {"what": "threaded!=serial"})
        ctx.count("forced-schedules" + ("-exhaustive" if complete else "-sampled"), len(scheds))
    # (c) real bases
    nreal = ctx.scale(12, 80)
    for it in range(nreal):
        if ctx.time_left(0.97) < 0:
            break
        m, info = meshes.gen_mesh(ctx.rng, meshes.FIRST_ORDER)
        try:
            e, ename = elements.gen_element(ctx.rng, info["kind"], exclude=("Skeleton",))
            ub = Basis(m, e, intorder=3)
            e2, ename2 = elements.gen_element(ctx.rng, info["kind"], exclude=("Skeleton",))
            vb = Basis(m, e2, intorder=3)
            form = fields.generic_bilinear()
            nthr = ctx.rng.randint(1, ub.Nbfun * vb.Nbfun + 2)
            before = checksums(ub) + checksums(vb)
            old = sys.getswitchinterval()
            sys.setswitchinterval(1e-6)
            try:
                A = BilinearForm(form, nthreads=nthr)._assemble(ub, vb)
            finally:
                sys.setswitchinterval(old)
            B = BilinearForm(form)._assemble(ub, vb)
            after = checksums(ub) + checksums(vb)
        except Exception as ex:
            ctx.violation("threaded assembly on a real basis raised " + exc_kind(ex),
                          {"mesh": meshes.mesh_descr(m), "err": repr(ex)}, {"what": "raise-real"})
            continue
        ctx.case({"mesh": info, "trial": ename, "test": ename2, "n": nthr}, nontrivial=nthr > 1)
        ctx.count("real-basis")
        inp = {"mesh": meshes.mesh_descr(m), "trial": ename, "test": ename2, "nthreads": nthr}
        if not (np.array_equal(A[0], B[0]) and A[1].tobytes() == B[1].tobytes() and A[2] == B[2]):
            ctx.violation("threaded assembly differs from serial assembly (real basis)", inp,
                          {"what": "threaded!=serial"})
        if before != after:
            ctx.violation("threaded assembly modified the basis arrays", inp, {"what": "inputs-modified"})
    # (c2) facet bases and integrands built from GRADIENTS: functions whose values vanish identically on the facet
    # (bubbles, interior nodes) still contribute through their derivatives - every pair is computed
    import skfem as _sk
    from skfem import FacetBasis as _FB

    def gform(u, v, w):
        return sum(u.grad[i] * w.n[i] for i in range(len(w.n))) * v + u * sum(v.grad[i] * w.n[i] for i in range(len(w.n))) \
            + 0.5 * u * v
    for mk_, els in ((lambda: _sk.MeshTri1().refined(1), [_sk.ElementTriMini, _sk.ElementTriCCR, _sk.ElementTriP2]),
                     (lambda: _sk.MeshQuad1().refined(1), [_sk.ElementQuad2, _sk.ElementQuadS2]),
                     (lambda: _sk.MeshTet1(), [_sk.ElementTetMini, _sk.ElementTetP2])):
        for E_ in els:
            if ctx.time_left(0.985) < 0:
                break
            try:
                fbb = _FB(mk_(), E_(), intorder=3)
                B = BilinearForm(gform)._assemble(fbb, fbb)
                for nthr in (1, 2, 3, fbb.Nbfun ** 2 + 1):
                    Athr = BilinearForm(gform, nthreads=nthr)._assemble(fbb, fbb)
                    ctx.case({"facet-gradient-form": E_.__name__, "n": nthr}, nontrivial=True)
                    ctx.count("facet-basis-gradient-form")
                    if not (np.array_equal(Athr[0], B[0]) and Athr[1].tobytes() == B[1].tobytes() and Athr[2] == B[2]):
                        ctx.violation("threaded assembly of a gradient-based form on a facet basis differs from serial "
                                      "assembly", {"element": E_.__name__, "nthreads": nthr,
                                                   "zero_columns_threaded": int((np.abs(Athr[1].reshape(fbb.Nbfun, fbb.Nbfun, -1)).sum(axis=(1, 2)) == 0).sum())},
                                      {"what": "threaded!=serial", "facet": True})
                        break
            except Exception as ex:
                ctx.violation("threaded facet assembly raised " + exc_kind(ex), {"element": E_.__name__, "err": repr(ex)},
                              {"what": "raise-real"})
    # (d) ONE threaded form object assembled on a sequence of bases whose local sizes differ although the element
    # classes coincide (p-refinement, wrappers): every assembly equals the serial one of a fresh form
    import skfem
    from skfem.element import ElementVector, ElementDG
    seqs = [("line", [lambda p=p: skfem.ElementLinePp(p) for p in (1, 2, 3, 2, 1)]),
            ("quad", [lambda p=p: skfem.ElementQuadP(p) for p in (1, 2, 1)]),
            ("tri", [lambda: ElementVector(skfem.ElementTriP1()), lambda: ElementVector(skfem.ElementTriP2()),
                     lambda: ElementVector(skfem.ElementTriP1())]),
            ("tri", [lambda: ElementDG(skfem.ElementTriP2()), lambda: ElementDG(skfem.ElementTriP1()),
                     lambda: ElementDG(skfem.ElementTriP2())]),
            ("tet", [lambda: ElementVector(skfem.ElementTetP1()), lambda: ElementVector(skfem.ElementTetP2())])]
    for kind, facs in seqs:
        if ctx.time_left(0.99) < 0:
            break
        try:
            m, info = meshes.gen_first_order(ctx.rng, kind)
            if m.nelements > 8:
                m = m.restrict(np.arange(8))
            form = fields.generic_bilinear()
            for nthr in (1, 2, 3, 7):
                shared = BilinearForm(form, nthreads=nthr)
                for step, fac in enumerate(facs):
                    ub = Basis(m, fac(), intorder=3)
                    vb = ub
                    if step % 2 == 1:
                        vb = Basis(m, facs[0](), intorder=3)      # rectangular in every second step
                    old = sys.getswitchinterval()
                    sys.setswitchinterval(1e-6)
                    try:
                        A = shared._assemble(ub, vb)
                    finally:
                        sys.setswitchinterval(old)
                    B = BilinearForm(form)._assemble(ub, vb)
                    ctx.case({"sequence": kind, "step": step, "n": nthr, "Nu": int(ub.Nbfun), "Nv": int(vb.Nbfun)},
                             nontrivial=True)
                    ctx.count("shared-form-sequence")
                    if not (np.array_equal(A[0], B[0]) and A[1].tobytes() == B[1].tobytes() and A[2] == B[2]):
                        ctx.violation("a threaded form object reused on a basis of another local size differs from "
                                      "serial assembly",
                                      {"mesh": meshes.mesh_descr(m), "kind": kind, "step": step, "nthreads": nthr,
                                       "Nbfun_trial": int(ub.Nbfun), "Nbfun_test": int(vb.Nbfun)},
                                      {"what": "threaded!=serial", "reuse": True})
                        break
        except Exception as ex:
            ctx.violation("threaded assembly with a reused form object raised " + exc_kind(ex),
                          {"kind": kind, "err": repr(ex)}, {"what": "raise-real"})
    if ctx.tier == "thorough" and not getattr(ctx, "no_lean", False):
        ctx.leanchecker(["SkfemVerif.Props.C16"])
