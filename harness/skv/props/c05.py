"""C05  Essential boundary conditions: condense, enforce, penalize, expansion."""
from fractions import Fraction

import numpy as np
import scipy.sparse as sp

from ..core import exc_kind, qstr, unq


def rand_system(rng, n=None):
    """random sparse square system with small dyadic entries: empty rows, explicit zeros,
    unsymmetric pattern, strongly dominant diagonal on most rows (so that sub-systems are regular)"""
    n = n or rng.randint(3, 9)
    A = np.zeros((n, n))
    for i in range(n):
        for j in range(n):
            if i != j and rng.random() < 0.35:
                A[i, j] = rng.randint(-8, 8) / 4
    diag_missing = set()
    for i in range(n):
        if rng.random() < 0.85:
            A[i, i] = rng.randint(20, 40) / 2
        else:
            diag_missing.add(i)
    empty = [i for i in range(n) if rng.random() < 0.2]
    for i in empty:
        A[i, :] = 0
    M = sp.csr_matrix(A)
    if rng.random() < 0.5:
        # explicit zeros: store a few zero entries
        M = M.tolil()
        for _ in range(rng.randint(1, 3)):
            i, j = rng.randrange(n), rng.randrange(n)
            if M[i, j] == 0 and i not in empty:
                M[i, j] = 1.0
                M = M.tocsr()
                M[i, j] = 0.0     # explicit zero stays stored in csr
                M = M.tolil()
        M = M.tocsr()
    b = np.array([rng.randint(-8, 8) / 2 for _ in range(n)])
    x = np.array([rng.randint(-6, 6) / 2 for _ in range(n)])
    return M, b, x, empty


def rand_index_set(rng, n, must_include=()):
    k = rng.randint(1, max(1, n - 1))
    D = rng.sample(range(n), k)
    for i in must_include:
        if i not in D:
            D.append(i)
    if rng.random() < 0.4:
        D = D + [rng.choice(D) for _ in range(rng.randint(1, 2))]    # repetitions
    rng.shuffle(D)
    return D


def dense_q(A):
    return [[qstr(v) for v in row] for row in np.asarray(A.toarray() if sp.issparse(A) else A).tolist()]


def vec_q(v):
    return [qstr(t) for t in np.asarray(v).tolist()]


def checksum(*objs):
    out = []
    for o in objs:
        if sp.issparse(o):
            out += [o.data.tobytes(), o.indices.tobytes(), o.indptr.tobytes()]
        elif o is not None:
            out.append(np.asarray(o).tobytes())
    return out


def fr_mat(A):
    return [[Fraction(v) for v in row] for row in np.asarray(A.toarray() if sp.issparse(A) else A).tolist()]


def solve_exact(A, b):
    """Gaussian elimination over Fraction; returns None if singular"""
    n = len(A)
    M = [row[:] + [b[i]] for i, row in enumerate(A)]
    for c in range(n):
        piv = next((r for r in range(c, n) if M[r][c] != 0), None)
        if piv is None:
            return None
        M[c], M[piv] = M[piv], M[c]
        for r in range(n):
            if r != c and M[r][c] != 0:
                f = M[r][c] / M[c][c]
                M[r] = [a - f * bb for a, bb in zip(M[r], M[c])]
    return [M[i][n] / M[i][i] for i in range(n)]


def extract_idx_code():
    """T3-style tie for the row-zeroing arithmetic of `enforce`: the statements computing `idx`
    (between `Aout = ...` and `Aout.data[idx] = 0.`) are lifted from the live source and compiled,
    so that the model's `rowZeroIdx` is compared with what the code computes NOW."""
    import ast
    import inspect
    import textwrap
    from skfem import utils
    src = textwrap.dedent(inspect.getsource(utils.enforce))
    fn = ast.parse(src).body[0]
    stmts = []
    seen_aout = False
    for st in fn.body:
        if isinstance(st, ast.Assign) and isinstance(st.targets[0], ast.Name) and st.targets[0].id == "Aout":
            seen_aout = True
            continue
        if not seen_aout:
            continue
        if isinstance(st, ast.Assign) and isinstance(st.targets[0], ast.Subscript):
            tgt = st.targets[0]
            if (isinstance(tgt.value, ast.Attribute) and tgt.value.attr == "data"
                    and isinstance(tgt.slice, ast.Name)):
                idxname = tgt.slice.id
                mod = ast.Module(body=stmts, type_ignores=[])
                ast.fix_missing_locations(mod)
                code = compile(mod, "<enforce-idx>", "exec")

                def run_idx(Aout, D):
                    env = {"np": np, "Aout": Aout, "D": D}
                    exec(code, env)
                    return env[idxname]
                return run_idx
        stmts.append(st)
    raise RuntimeError("cannot locate the row-zeroing statements of skfem.utils.enforce")


def traced_idx_code():
    """fallback of `extract_idx_code`: run the live enforce() (overwrite=True, on a private copy) with a data
    array that records its fancy assignments; the first assignment of zeros is the row-zeroing.  Returns
    None if no such assignment is observed on a probe."""
    from skfem.utils import enforce

    class Rec(np.ndarray):
        log = None

        def __setitem__(self, key, val):
            if Rec.log is not None:
                Rec.log.append((np.array(key, copy=True), np.array(val, copy=True)))
            super().__setitem__(key, val)

    def run_idx(A, D):
        A2 = A.copy()
        A2.data = A2.data.view(Rec)
        Rec.log = []
        try:
            enforce(A2, np.zeros(A2.shape[0]), D=D, overwrite=True)
        finally:
            log, Rec.log = Rec.log, None
        for key, val in log:
            if key.dtype.kind in "iu" and key.ndim == 1 and np.all(val == 0):
                return key
        raise RuntimeError("no zeroing assignment observed")
    try:
        probe = sp.csr_matrix(np.array([[1., 2., 0.], [0., 3., 4.], [5., 0., 6.]]))
        got = sorted(int(v) for v in run_idx(probe, np.array([1])))
        if got != [2, 3]:
            return None
    except Exception:
        return None
    return run_idx


def dtype_and_penalty_checks(ctx):
    """(a) b omitted: the default right-hand side must be able to hold the prescribed values (complex x with a
    real matrix, fractional x with an integer matrix): constrained entries of the returned right-hand side are
    x_i (enforce) / x_i / eps (penalize) exactly;  (b) penalize with its DEFAULT parameter on systems in which
    some constrained rows have no or a zero diagonal entry next to ordinary ones agrees with the condensed
    solution."""
    from skfem import condense, enforce, penalize, solve
    rng = ctx.rng
    for rep in range(ctx.scale(12, 120)):
        n = rng.randint(4, 9)
        dense = np.array([[rng.randint(-3, 3) if rng.random() < 0.4 else 0 for _ in range(n)] for _ in range(n)],
                         dtype=float)
        dense = dense + dense.T + np.diag([float(rng.randint(8, 12)) * 4 for _ in range(n)])
        D = np.array(sorted(rng.sample(range(n), rng.randint(2, n - 2))), dtype=np.int64)
        b = np.array([rng.randint(-4, 4) / 2 for _ in range(n)])
        # ---- (a)
        for adt, xdt in ((np.float64, np.complex128), (np.int64, np.float64), (np.float32, np.float64)):
            A = sp.csr_matrix(dense.astype(adt))
            x = np.array([rng.randint(-8, 8) / 4 + 0.125 for _ in range(n)]).astype(xdt)
            if xdt is np.complex128:
                x = x + 1j * np.array([rng.randint(1, 8) / 4 for _ in range(n)])
            inp = {"A_dtype": np.dtype(adt).name, "x_dtype": np.dtype(xdt).name, "n": n, "D": D.tolist(),
                   "x": [complex(v) for v in x.tolist()]}
            ctx.case(dict(inp, kind="default-rhs", rep=rep), nontrivial=True)
            ctx.count("default-rhs-dtype:" + inp["A_dtype"] + "/" + inp["x_dtype"])
            try:
                A2, b2 = enforce(A, x=x, D=D)
                if not np.array_equal(np.asarray(b2)[D], x[D]):
                    ctx.violation("enforce(A, x=x, D=D) without b: the constrained right-hand side entries are not x_i",
                                  dict(inp, got=[complex(v) for v in np.asarray(b2)[D].tolist()]),
                                  {"what": "enforce-row", "default_b": True})
                eps = 2.0 ** -20
                A3, b3 = penalize(A, x=x, D=D, epsilon=eps)
                if not np.array_equal(np.asarray(b3)[D], x[D] / eps):
                    ctx.violation("penalize(A, x=x, D=D) without b: the constrained right-hand side entries are not "
                                  "x_i / epsilon", dict(inp, got=[complex(v) for v in np.asarray(b3)[D].tolist()]),
                                  {"what": "penalize-rhs", "default_b": True})
            except Exception as ex:
                ctx.violation("enforce / penalize without b raised " + exc_kind(ex), dict(inp, err=repr(ex)),
                              {"what": "raise-enforce"})
        # ---- (b)
        dz = dense.copy()
        zrows = [int(i) for i in rng.sample(list(D), rng.randint(1, len(D) - 1))]
        for i in zrows:
            dz[i, i] = 0.0
        if rng.random() < 0.5:
            dz[zrows[0], :] = 0.0           # a constrained row that stores nothing at all
        A = sp.csr_matrix(dz)
        if rng.random() < 0.5:
            A = A.tolil()
            A[zrows[-1], zrows[-1]] = 0.0   # an explicitly stored zero on the diagonal
            A = A.tocsr()
        x = np.array([rng.randint(-8, 8) / 4 for _ in range(n)])
        inp = {"A": dz.tolist(), "b": b.tolist(), "x": x.tolist(), "D": D.tolist(), "zero_diagonal_rows": zrows}
        ctx.case(dict(inp, kind="default-penalty", rep=rep), nontrivial=True)
        ctx.count("penalize-default-epsilon:zero-diagonal-rows")
        try:
            ref = solve(*condense(A, b, x=x, D=D))
            got = solve(*penalize(A, b, x=x, D=D))
            if not np.allclose(got, ref, rtol=1e-6, atol=1e-6):
                ctx.violation("penalize with its default parameter does not agree with the condensed solution when "
                              "some constrained rows have no / a zero diagonal entry",
                              dict(inp, penalized=got.tolist(), condensed=ref.tolist()),
                              {"what": "penalize-default"})
        except Exception as ex:
            ctx.violation("penalize with default parameter raised " + exc_kind(ex), dict(inp, err=repr(ex)),
                          {"what": "raise-penalize"})


def eigen_expansion_checks(ctx):
    """matrix right-hand side with PRESCRIBED values: every eigenvector returned by solve(*condense(K, M, x=x,
    D=D)) equals x on the constrained indices and the reduced eigenvector on the kept ones; enforce(K, M) has zero
    rows in M on the constrained indices (no spurious finite eigenvalues)"""
    import scipy.linalg as sla
    from skfem import condense, enforce, solve
    rng = ctx.rng

    def dense_eigs(A, M, **kw):
        L, X = sla.eigh(A.toarray(), M.toarray())
        return L[:4], X[:, :4]
    for rep in range(ctx.scale(8, 80)):
        n = rng.randint(6, 10)
        B = np.array([[rng.randint(-2, 2) if rng.random() < 0.5 else 0 for _ in range(n)] for _ in range(n)], dtype=float)
        K = sp.csr_matrix(B + B.T + np.diag([float(rng.randint(9, 14)) for _ in range(n)]))
        C = np.array([[rng.randint(-1, 1) if rng.random() < 0.3 else 0 for _ in range(n)] for _ in range(n)], dtype=float)
        Mm = sp.csr_matrix(C + C.T + np.diag([float(rng.randint(6, 9)) for _ in range(n)]))
        D = np.array(sorted(rng.sample(range(n), rng.randint(1, n - 4))), dtype=np.int64)
        I = np.setdiff1d(np.arange(n), D)
        x = np.array([rng.randint(-8, 8) / 4 + 0.125 * i for i in range(n)])
        inp = {"K": K.toarray().tolist(), "M": Mm.toarray().tolist(), "D": D.tolist(), "x": x.tolist()}
        ctx.case(dict(inp, kind="eigen-expansion", rep=rep), nontrivial=True)
        ctx.count("eigen:prescribed-values")
        try:
            L, X = solve(*condense(K, Mm, x=x, D=D), solver=dense_eigs)
            Lr, Xr = dense_eigs(K[I][:, I], Mm[I][:, I])
            ok = X.shape == (n, Xr.shape[1]) and np.allclose(L, Lr) and \
                all(np.array_equal(X[D, j], x[D]) for j in range(X.shape[1])) and np.allclose(X[I], Xr)
            if not ok:
                ctx.violation("eigenvectors expanded by solve(*condense(K, M, x=x, D=D)) do not carry x on the constrained "
                              "indices and the reduced eigenvectors on the kept ones",
                              dict(inp, got_on_D=X[D].T.tolist() if X.ndim == 2 else None),
                              {"what": "eigen-expand"})
            snap = (K.data.tobytes(), K.indices.tobytes(), K.indptr.tobytes(), Mm.data.tobytes(), Mm.indices.tobytes(),
                    Mm.indptr.tobytes())
            K2, M2 = enforce(K, Mm, D=D)
            condense(K, Mm, D=D)
            if snap != (K.data.tobytes(), K.indices.tobytes(), K.indptr.tobytes(), Mm.data.tobytes(),
                        Mm.indices.tobytes(), Mm.indptr.tobytes()) or M2 is Mm or K2 is K:
                ctx.violation("enforce / condense with a matrix right-hand side modified (or returned) an argument "
                              "although overwriting was not requested", inp, {"what": "operand-mutated"})
            M2d = M2.toarray()
            if np.abs(M2d[D]).max() != 0 or not np.array_equal(M2d[I], Mm.toarray()[I]):
                ctx.violation("enforce(K, M, D=D): the constrained rows of the second matrix are not zero rows (or other "
                              "rows changed)", dict(inp, rows=M2d[D].tolist()), {"what": "enforce-mass"})
        except Exception as ex:
            ctx.violation("eigenproblem with prescribed values raised " + exc_kind(ex), dict(inp, err=repr(ex)),
                          {"what": "raise-condense"})


def collection_checks(ctx):
    """the same split named as index array / DofsView / dict of disjoint views / dict of OVERLAPPING views
    (facet sets sharing corner DOFs, cell sets sharing facet DOFs), as D and as I, through condense, enforce
    and penalize: all must agree with the index-array form (which the exact correspondence covers)"""
    import skfem
    from skfem import Basis, condense, enforce, penalize, solve
    from skfem.models.poisson import laplace, mass
    from .. import meshes as M
    rng = ctx.rng
    elems = {"line": ["ElementLineP1", "ElementLineP2"], "tri": ["ElementTriP1", "ElementTriP2", "ElementTriCR"],
             "quad": ["ElementQuad1", "ElementQuad2"], "tet": ["ElementTetP1", "ElementTetP2"],
             "hex": ["ElementHex1"]}
    for rep in range(ctx.scale(6, 60)):
        kind = rng.choice(list(elems))
        m, info = M.gen_first_order(rng, kind)
        if m.nelements > 30:
            continue
        ename = rng.choice(elems[kind])
        basis = Basis(m, getattr(skfem, ename)())
        A = (laplace.assemble(basis) + mass.assemble(basis)).tocsr()
        b = A @ np.linspace(1.0, 2.0, basis.N)
        xx = np.array([rng.randint(-4, 4) / 2 for _ in range(basis.N)])
        bf = [int(f) for f in m.boundary_facets()]
        rng.shuffle(bf)
        k = rng.randint(1, len(bf))
        # three facet sets with common members: their DOF views overlap in the shared facets' and vertices' DOFs
        parts = [bf[:k], bf[max(0, k - 2):], bf[::2]]
        dviews = {f"part{i}": basis.get_dofs(facets=np.array(sorted(p), dtype=np.int64)) for i, p in enumerate(parts) if p}
        Darr = np.unique(np.concatenate([v.flatten() for v in dviews.values()]))
        if len(Darr) == basis.N or len(Darr) == 0:
            continue
        cells = list(range(m.nelements))
        rng.shuffle(cells)
        kc = rng.randint(1, len(cells))
        cparts = [cells[:kc], cells[max(0, kc - 1):kc + 1], cells[:1]]
        iviews = {f"sub{i}": basis.get_dofs(elements=np.array(sorted(p), dtype=np.int64)) for i, p in enumerate(cparts) if p}
        Iarr = np.unique(np.concatenate([v.flatten() for v in iviews.values()]))
        whole = basis.get_dofs(facets=np.array(sorted(set(sum(parts, []))), dtype=np.int64))
        descr = {"mesh": M.mesh_descr(m), "element": ename, "facet_parts": parts, "cell_parts": cparts}
        for key, arr, forms in (("D", Darr, {"view": whole, "dict-overlapping": dviews,
                                               "dict-single": {"w": whole}}),
                                ("I", Iarr, {"dict-overlapping": iviews})):
            if len(arr) in (0, basis.N):
                continue
            for op in ("condense", "enforce", "penalize"):
                try:
                    ref = _apply_bc(op, A, b, xx, {key: arr})
                except Exception as ex:
                    ctx.count("collection:reference-raises:" + exc_kind(ex))
                    continue
                for fname, spec in forms.items():
                    ctx.case({"rep": rep, "key": key, "op": op, "form": fname, "seed": ctx.seed}, nontrivial=True)
                    ctx.count(f"collection:{key}:{fname}")
                    try:
                        got = _apply_bc(op, A, b, xx, {key: spec})
                    except Exception as ex:
                        ctx.violation(f"{op}({key}=<{fname}>) raised {exc_kind(ex)} where the index-array form works",
                                      dict(descr, key=key, form=fname, err=repr(ex)),
                                      {"what": "dof-collection", "form": fname, "key": key})
                        continue
                    if got.shape != ref.shape or not np.allclose(got, ref, rtol=1e-10, atol=1e-10, equal_nan=False):
                        ctx.violation(f"{op}: the split given as {key}=<{fname}> gives another solution than the "
                                      f"same index set given as an array",
                                      dict(descr, key=key, form=fname, op=op,
                                           maxdiff=(float(np.nanmax(np.abs(got - ref))) if got.shape == ref.shape
                                                    else "shape")),
                                      {"what": "dof-collection", "form": fname, "key": key})


def _apply_bc(op, A, b, xx, kw):
    from skfem import condense, enforce, penalize, solve
    if op == "condense":
        return solve(*condense(A, b, x=xx, **kw))
    if op == "enforce":
        return solve(*enforce(A, b, x=xx, **kw))
    return solve(*penalize(A, b, x=xx, epsilon=1e-14, **kw))


def run(ctx):
    from skfem import condense, enforce, penalize, solve
    from skfem.utils import _init_bc
    ctx.rule = ("random sparse systems n=3..9 with dyadic entries: rows without stored entries, explicit zeros, "
                "missing diagonal entries, unsymmetric patterns; index sets in random order with repetitions, given "
                "as D or as I, as arrays / DofsView / dict of views; distinct = (matrix, rhs, x, index set, op); "
                "non-trivial = at least one kept and one constrained index")
    ctx.trusted += ["Lean kernel; axioms propext/Classical.choice/Quot.sound",
                    "model Skv.initBC/condenseMat/condenseRhs/enforceMat/rowZeroIdx/penalizeMat/expandSol "
                    "hand-written, tied by exact correspondence ops bc.*",
                    "SciPy: csr slicing A[I][:, I], diagonal()/setdiag() dense semantics, spsolve",
                    ]
    ctx.assumptions += ["spsolve returns the solution of a nonsingular system (checked a posteriori with exact "
                        "rational elimination on the same data)",
                    ]
    if not getattr(ctx, "no_lean", False):
        ctx.prove(["SkfemVerif.Props.C05"], ["SkfemVerif/Props/C05.lean"])
    reqs, post = [], []
    try:
        idx_code = extract_idx_code()
        ctx.notes["enforce_idx_tie"] = "statements lifted from the live source (AST slice)"
    except Exception as ex:
        # the source no longer has the recognised shape (e.g. the arithmetic moved into a helper): observe the
        # positions the live enforce() zeroes in the data array instead; if that is not observable either, the
        # row-zeroing is still tied through the exact comparison of enforce()'s whole output (bc.enforce)
        idx_code = traced_idx_code()
        ctx.notes["enforce_idx_tie"] = ("AST slice not applicable (" + repr(ex)[:120] + "); " +
                                        ("positions observed through a recording data array" if idx_code else
                                         "not observable: covered by the bc.enforce correspondence only"))
    n_cases = ctx.scale(200, 2500)
    for it in range(n_cases):
        if ctx.time_left(0.7) < 0:
            break
        A, b, x, empty = rand_system(ctx.rng)
        n = A.shape[0]
        D = rand_index_set(ctx.rng, n, must_include=[e for e in empty if ctx.rng.random() < 0.7][:n - 1])
        if len(set(D)) >= n:
            D = list(set(D))[:n - 1]
        Dn = np.array(D, dtype=np.int64)
        mode = ctx.rng.choice(["D", "D", "I"])
        Iset = [i for i in range(n) if i not in set(D)]
        if mode == "I":
            Iarr = list(Iset)
            ctx.rng.shuffle(Iarr)
            kw = {"I": np.array(Iarr, dtype=np.int64)}
        else:
            kw = {"D": Dn}
        ctx.count("split-given-as-" + mode)
        if empty:
            ctx.count("has-empty-row")
        if len(D) != len(set(D)):
            ctx.count("repeated-indices")
        descr = {"A": A.toarray().tolist(), "b": b.tolist(), "x": x.tolist(), "kw": {k: v.tolist() for k, v in kw.items()}}
        ctx.case(descr, nontrivial=0 < len(set(D)) < n, sample=descr if it < 2 else None)
        inp = dict(descr, indptr=A.indptr.tolist(), indices=A.indices.tolist(), data=A.data.tolist())
        before = checksum(A, b, x, *kw.values())
        # ---- _init_bc
        try:
            _, _, I_impl, D_impl = _init_bc(A, b, x, **kw)
            reqs.append({"op": "bc.init", "n": n, **{k: v.tolist() for k, v in kw.items()}})
            post.append(("init", inp, (I_impl.tolist(), D_impl.tolist())))
            if sorted(set(I_impl.tolist()) | set(D_impl.tolist())) != list(range(n)) or \
                    set(I_impl.tolist()) & set(D_impl.tolist()):
                ctx.violation("_init_bc: kept and constrained sets do not partition the indices", inp,
                              {"what": "init-partition"})
        except Exception as ex:
            ctx.violation("_init_bc raised " + exc_kind(ex), dict(inp, err=repr(ex)), {"what": "raise-init"})
            continue
        Ds = sorted(set(D))
        Is = I_impl.tolist()
        Aq = fr_mat(A)
        bq = [Fraction(v) for v in b.tolist()]
        xq = [Fraction(v) for v in x.tolist()]
        # ---- condense + solve + expand
        try:
            cond = condense(A, b, x=x, **kw)
            AII, bI, xx, II = cond
            reqs.append({"op": "bc.condense", "A": dense_q(A), "b": vec_q(b), "x": vec_q(x), "I": Is, "D": D_impl.tolist()})
            post.append(("condense", inp, (AII.toarray().tolist(), bI.tolist())))
            # exact reference
            sub = [[Aq[i][j] for j in Is] for i in Is]
            rhs = [bq[i] - sum(Aq[i][d] * xq[d] for d in Ds) for i in Is]
            sol = solve_exact(sub, rhs)
            if sol is not None:
                z = solve(*cond)
                zq = list(xq)
                for p, i in enumerate(Is):
                    zq[i] = sol[p]
                scale = max(1.0, max(abs(float(v)) for v in zq))
                if not np.allclose(z, [float(v) for v in zq], rtol=1e-9, atol=1e-9 * scale):
                    ctx.violation("solve(*condense(...)) is not x on D / does not satisfy the kept equations", inp,
                                  {"what": "condense-solution"})
                ctx.count("condense-solved")
        except Exception as ex:
            ctx.violation("condense/solve raised " + exc_kind(ex), dict(inp, err=repr(ex)), {"what": "raise-condense"})
        # ---- enforce
        try:
            diag = ctx.rng.choice([1.0, 1.0, 2.5, -3.0])
            A2, b2 = enforce(A, b, x=x, diag=diag, **kw)
            reqs.append({"op": "bc.enforce", "n": n, "A": dense_q(A), "b": vec_q(b), "x": vec_q(x),
                         "D": D_impl.tolist(), "diag": qstr(diag)})
            post.append(("enforce", dict(inp, diag=diag), (A2.toarray().tolist(), b2.tolist())))
            reqs.append({"op": "bc.enforce.idx", "indptr": A.indptr.tolist(), "D": D_impl.tolist()})
            try:
                idx_impl = [int(v) for v in idx_code(A, D_impl)] if idx_code else None
            except Exception as ex:
                idx_impl = "raises " + exc_kind(ex)
            post.append(("enforce.idx", inp, idx_impl))
            # property on the implementation: rows
            A2d = A2.toarray()
            for i in range(n):
                if i in set(D):
                    want = np.zeros(n)
                    want[i] = diag
                    if not (A2d[i] == want).all() or b2[i] != x[i]:
                        ctx.violation("enforce: constrained row is not diag*e_i with rhs x_i",
                                      dict(inp, diag=diag, row=i, got=A2d[i].tolist(), rhs=float(b2[i])),
                                      {"what": "enforce-row"})
                        break
                elif not (A2d[i] == A.toarray()[i]).all() or b2[i] != b[i]:
                    ctx.violation("enforce: an unconstrained row was modified",
                                  dict(inp, diag=diag, row=i, got=A2d[i].tolist()), {"what": "enforce-other-row"})
                    break
            # matrix right-hand side (eigenproblem)
            Mm = sp.csr_matrix(np.abs(A.toarray()) + np.eye(n))
            A3, M3 = enforce(A, Mm, **kw)
            M3d = M3.toarray()
            for i in set(D):
                if M3d[i].any():
                    ctx.violation("enforce with matrix rhs: constrained row of the mass matrix is not zero",
                                  dict(inp, row=i), {"what": "enforce-mass"})
                    break
            AIIe, MIIe, _, _ = condense(A, Mm, **kw)
            if not (AIIe.toarray() == A.toarray()[np.ix_(Is, Is)]).all() or \
                    not (MIIe.toarray() == Mm.toarray()[np.ix_(Is, Is)]).all():
                ctx.violation("condense with matrix rhs: blocks are not A_II, M_II", inp, {"what": "condense-mass"})
        except Exception as ex:
            ctx.violation("enforce raised " + exc_kind(ex), dict(inp, err=repr(ex)), {"what": "raise-enforce"})
        # ---- penalize
        try:
            eps = 2.0 ** -ctx.rng.randint(8, 20)
            A4, b4 = penalize(A, b, x=x, epsilon=eps, **kw)
            reqs.append({"op": "bc.penalize", "n": n, "A": dense_q(A), "b": vec_q(b), "x": vec_q(x),
                         "D": D_impl.tolist(), "epsInv": qstr(1.0 / eps)})
            post.append(("penalize", dict(inp, eps=eps), (A4.toarray().tolist(), b4.tolist())))
        except Exception as ex:
            ctx.violation("penalize raised " + exc_kind(ex), dict(inp, err=repr(ex)), {"what": "raise-penalize"})
        # ---- no mutation
        if checksum(A, b, x, *kw.values()) != before:
            ctx.violation("an argument was modified although overwrite was not requested", inp,
                          {"what": "operand-mutated"})
    # ---- DOF-collection types and error cases (on a real basis)
    try:
        from skfem import MeshTri, Basis, ElementTriP2, BilinearForm, LinearForm
        from skfem.models.poisson import laplace, unit_load
        m = MeshTri().refined(1)
        basis = Basis(m, ElementTriP2())
        A = laplace.assemble(basis)
        b = unit_load.assemble(basis)
        xx = basis.project(lambda x: 1 + x[0] + 2 * x[1])
        views = basis.get_dofs()
        as_array = views.flatten()
        as_dict = basis.get_dofs({"left": lambda x: x[0] == 0, "rest": lambda x: x[0] > 0})
        as_dict = {k: v for k, v in as_dict.items()}
        alld = basis.get_dofs().flatten()
        sols = []
        for Dspec in (as_array, views, {"all": views}):
            sols.append(solve(*condense(A, b, x=xx, D=Dspec)))
        ctx.case({"dof-collection-types": 3})
        if not (np.allclose(sols[0], sols[1], atol=1e-12) and np.allclose(sols[0], sols[2], atol=1e-12)):
            ctx.violation("condense gives different results for array / DofsView / dict of views",
                          {"mesh": "MeshTri().refined(1)", "element": "ElementTriP2"}, {"what": "dof-collection"})
        collection_checks(ctx)
        dtype_and_penalty_checks(ctx)
        eigen_expansion_checks(ctx)
        for bad in ({}, {"I": np.array([0]), "D": np.array([1])}):
            try:
                condense(A, b, **bad)
                ctx.violation("_init_bc accepted neither/both of I and D", {"kwargs": list(bad)}, {"what": "init-error"})
            except Exception:
                pass
        reqs.append({"op": "bc.init", "n": 4})
        post.append(("init-raises", None, None))
        reqs.append({"op": "bc.init", "n": 4, "I": [0], "D": [1]})
        post.append(("init-raises", None, None))
    except Exception as ex:
        ctx.violation("boundary-condition helpers on a real basis raised " + exc_kind(ex), {"err": repr(ex)},
                      {"what": "raise-real"})
    # ---- mpc (search only)
    try:
        from skfem.utils import mpc
        for it in range(ctx.scale(20, 200)):
            A, b, x, empty = rand_system(ctx.rng, ctx.rng.randint(4, 8))
            A = sp.csr_matrix(A.toarray() + 30 * np.eye(A.shape[0]))
            n = A.shape[0]
            idx = list(range(n))
            ctx.rng.shuffle(idx)
            k = ctx.rng.randint(1, n // 2)
            S, M = np.array(idx[:k]), np.array(idx[k:2 * k])
            T = sp.csr_matrix(np.array([[ctx.rng.randint(-2, 2) / 2 for _ in range(k)] for _ in range(k)]))
            g = np.array([ctx.rng.randint(-2, 2) / 2 for _ in range(k)])
            red = mpc(A, b, S=S, M=M, T=T, g=g)
            z = solve(*red)
            U = np.setdiff1d(np.arange(n), np.concatenate((M, S)))
            wsol = np.linalg.solve(red[0].toarray(), red[1])
            reqs.append({"op": "bc.mpc", "n": n, "A": dense_q(A), "b": vec_q(b), "U": U.tolist(), "M": M.tolist(),
                         "S": S.tolist(), "T": dense_q(T), "g": vec_q(g), "w": vec_q(wsol)})
            post.append(("mpc", {"A": A.toarray().tolist(), "S": S.tolist(), "M": M.tolist()},
                         (red[0].toarray().tolist(), red[1].tolist(), z.tolist())))
            ok = np.allclose(z[S], T @ z[M] + g, atol=1e-9)
            # reduced equations: rows U exactly; rows M combined with T^T rows S is NOT what the code does
            # (it drops the S rows): check the U rows and the M rows of A z = b
            res = A @ z - b
            ok = ok and np.allclose(res[U], 0, atol=1e-8) and np.allclose(res[M], 0, atol=1e-8)
            ctx.case({"mpc": [A.toarray().tolist(), S.tolist(), M.tolist()]})
            ctx.count("mpc")
            if not ok:
                ctx.violation("mpc: expanded solution violates the constraint or the kept equations",
                              {"A": A.toarray().tolist(), "b": b.tolist(), "S": S.tolist(), "M": M.tolist(),
                               "T": T.toarray().tolist(), "g": g.tolist()}, {"what": "mpc"})
    except Exception as ex:
        ctx.violation("mpc raised " + exc_kind(ex), {"err": repr(ex)}, {"what": "raise-mpc"})
    # ---- correspondence
    if not ctx.driver.available():
        ctx.broken.append({"kind": "driver-missing"})
        return
    outs = ctx.driver.run(reqs)

    def close(model, impl):
        model = np.array([[float(v) for v in row] for row in model]) if model and isinstance(model[0], list) \
            else np.array([float(v) for v in model])
        impl = np.array(impl, dtype=float)
        return model.shape == impl.shape and np.allclose(model, impl, rtol=1e-12, atol=1e-12)

    for (kind, inp, impl), out, req in zip(post, outs, reqs):
        if "error" in out if isinstance(out, dict) else False:
            ctx.corr("bc." + kind, False, req, out, impl)
            continue
        if kind == "init":
            ctx.corr("bc.init", out.get("I") == impl[0] and out.get("D") == impl[1], inp, out, impl)
        elif kind == "init-raises":
            ctx.corr("bc.init(raises)", out.get("raises") is True, req, out, "raises")
        elif kind == "condense":
            ctx.corr("bc.condense", close(unq(out["AII"]), impl[0]) and close(unq(out["bI"]), impl[1]), inp, out, impl)
        elif kind in ("enforce", "penalize"):
            ctx.corr("bc." + kind, close(unq(out["A"]), impl[0]) and close(unq(out["b"]), impl[1]), inp, out, impl)
        elif kind == "mpc":
            ctx.corr("bc.mpc", close(unq(out["B"]), impl[0]) and close(unq(out["y"]), impl[1])
                     and np.allclose([float(v) for v in unq(out["z"])], impl[2], rtol=1e-9, atol=1e-9), inp,
                     "model B, y, z", "implementation")
        elif kind == "enforce.idx":
            # (the zeroing is an assignment of one value: the ORDER of the positions is not observable)
            ctx.corr("bc.enforce.idx", out["idx"] == out["ranges"] and
                     (impl is None or (isinstance(impl, list) and sorted(impl) == sorted(out["idx"]))), inp,
                     out["idx"], impl)
    if ctx.tier == "thorough" and not getattr(ctx, "no_lean", False):
        ctx.leanchecker(["SkfemVerif.Props.C05"])
