"""C05  Essential boundary conditions: condense, enforce, penalize, expansion."""
from fractions import Fraction

import numpy as np
import scipy.sparse as sp

from ..core import exc_kind, qstr, unq


def rand_system(rng, n=None):
    """random sparse square system with small dyadic entries: empty rows, explicit zeros,
    unsymmetric pattern, strongly dominant diagonal on most rows (so that sub-systems are regular)"""
    n = n or rng.randint(3, 9)
    A = np.zeros((n, n))
    for i in range(n):
        for j in range(n):
            if i != j and rng.random() < 0.35:
                A[i, j] = rng.randint(-8, 8) / 4
    diag_missing = set()
    for i in range(n):
        if rng.random() < 0.85:
            A[i, i] = rng.randint(20, 40) / 2
        else:
            diag_missing.add(i)
    empty = [i for i in range(n) if rng.random() < 0.2]
    for i in empty:
        A[i, :] = 0
    M = sp.csr_matrix(A)
    if rng.random() < 0.5:
        # explicit zeros: store a few zero entries
        M = M.tolil()
        for _ in range(rng.randint(1, 3)):
            i, j = rng.randrange(n), rng.randrange(n)
            if M[i, j] == 0 and i not in empty:
                M[i, j] = 1.0
                M = M.tocsr()
                M[i, j] = 0.0     # explicit zero stays stored in csr
                M = M.tolil()
        M = M.tocsr()
    b = np.array([rng.randint(-8, 8) / 2 for _ in range(n)])
    x = np.array([rng.randint(-6, 6) / 2 for _ in range(n)])
    return M, b, x, empty


def rand_index_set(rng, n, must_include=()):
    k = rng.randint(1, max(1, n - 1))
    D = rng.sample(range(n), k)
    for i in must_include:
        if i not in D:
            D.append(i)
    if rng.random() < 0.4:
        D = D + [rng.choice(D) for _ in range(rng.randint(1, 2))]    # repetitions
    rng.shuffle(D)
    return D


def dense_q(A):
    return [[qstr(v) for v in row] for row in np.asarray(A.toarray() if sp.issparse(A) else A).tolist()]


def vec_q(v):
    return [qstr(t) for t in np.asarray(v).tolist()]


def checksum(*objs):
    out = []
    for o in objs:
        if sp.issparse(o):
            out += [o.data.tobytes(), o.indices.tobytes(), o.indptr.tobytes()]
        elif o is not None:
            out.append(np.asarray(o).tobytes())
    return out


def fr_mat(A):
    return [[Fraction(v) for v in row] for row in np.asarray(A.toarray() if sp.issparse(A) else A).tolist()]


def solve_exact(A, b):
    """Gaussian elimination over Fraction; returns None if singular"""
    n = len(A)
    M = [row[:] + [b[i]] for i, row in enumerate(A)]
    for c in range(n):
        piv = next((r for r in range(c, n) if M[r][c] != 0), None)
        if piv is None:
            return None
        M[c], M[piv] = M[piv], M[c]
        for r in range(n):
            if r != c and M[r][c] != 0:
                f = M[r][c] / M[c][c]
                M[r] = [a - f * bb for a, bb in zip(M[r], M[c])]
    return [M[i][n] / M[i][i] for i in range(n)]


def extract_idx_code():
    """T3-style tie for the row-zeroing arithmetic of `enforce`: the statements computing `idx`
    (between `Aout = ...` and `Aout.data[idx] = 0.`) are lifted from the live source and compiled,
    so that the model's `rowZeroIdx` is compared with what the code computes NOW."""
    import ast
    import inspect
    import textwrap
    from skfem import utils
    src = textwrap.dedent(inspect.getsource(utils.enforce))
    fn = ast.parse(src).body[0]
    stmts = []
    seen_aout = False
    for st in fn.body:
        if isinstance(st, ast.Assign) and isinstance(st.targets[0], ast.Name) and st.targets[0].id == "Aout":
            seen_aout = True
            continue
        if not seen_aout:
            continue
        if isinstance(st, ast.Assign) and isinstance(st.targets[0], ast.Subscript):
            tgt = st.targets[0]
            if (isinstance(tgt.value, ast.Attribute) and tgt.value.attr == "data"
                    and isinstance(tgt.slice, ast.Name)):
                idxname = tgt.slice.id
                mod = ast.Module(body=stmts, type_ignores=[])
                ast.fix_missing_locations(mod)
                code = compile(mod, "<enforce-idx>", "exec")

                def run_idx(Aout, D):
                    env = {"np": np, "Aout": Aout, "D": D}
                    exec(code, env)
                    return env[idxname]
                return run_idx
        stmts.append(st)
    raise RuntimeError("cannot locate the row-zeroing statements of skfem.utils.enforce")


def run(ctx):
    from skfem import condense, enforce, penalize, solve
    from skfem.utils import _init_bc
    ctx.rule = ("random sparse systems n=3..9 with dyadic entries: rows without stored entries, explicit zeros, "
                "missing diagonal entries, unsymmetric patterns; index sets in random order with repetitions, given "
                "as D or as I, as arrays / DofsView / dict of views; distinct = (matrix, rhs, x, index set, op); "
                "non-trivial = at least one kept and one constrained index")
    ctx.trusted += ["Lean kernel; axioms propext/Classical.choice/Quot.sound",
                    "model Skv.initBC/condenseMat/condenseRhs/enforceMat/rowZeroIdx/penalizeMat/expandSol "
                    "hand-written, tied by exact correspondence ops bc.*",
                    "SciPy: csr slicing A[I][:, I], diagonal()/setdiag() dense semantics, spsolve",
                    ]
    ctx.assumptions += ["spsolve returns the solution of a nonsingular system (checked a posteriori with exact "
                        "rational elimination on the same data)",
                    ]
    if not getattr(ctx, "no_lean", False):
        ctx.prove(["SkfemVerif.Props.C05"], ["SkfemVerif/Props/C05.lean"])
    reqs, post = [], []
    try:
        idx_code = extract_idx_code()
    except Exception as ex:
        idx_code = None
        ctx.broken.append({"kind": "translator", "what": "row-zeroing statements of enforce not recognised",
                           "err": repr(ex)})
    n_cases = ctx.scale(200, 2500)
    for it in range(n_cases):
        if ctx.time_left(0.7) < 0:
            break
        A, b, x, empty = rand_system(ctx.rng)
        n = A.shape[0]
        D = rand_index_set(ctx.rng, n, must_include=[e for e in empty if ctx.rng.random() < 0.7][:n - 1])
        if len(set(D)) >= n:
            D = list(set(D))[:n - 1]
        Dn = np.array(D, dtype=np.int64)
        mode = ctx.rng.choice(["D", "D", "I"])
        Iset = [i for i in range(n) if i not in set(D)]
        if mode == "I":
            Iarr = list(Iset)
            ctx.rng.shuffle(Iarr)
            kw = {"I": np.array(Iarr, dtype=np.int64)}
        else:
            kw = {"D": Dn}
        ctx.count("split-given-as-" + mode)
        if empty:
            ctx.count("has-empty-row")
        if len(D) != len(set(D)):
            ctx.count("repeated-indices")
        descr = {"A": A.toarray().tolist(), "b": b.tolist(), "x": x.tolist(), "kw": {k: v.tolist() for k, v in kw.items()}}
        ctx.case(descr, nontrivial=0 < len(set(D)) < n, sample=descr if it < 2 else None)
        inp = dict(descr, indptr=A.indptr.tolist(), indices=A.indices.tolist(), data=A.data.tolist())
        before = checksum(A, b, x, *kw.values())
        # ---- _init_bc
        try:
            _, _, I_impl, D_impl = _init_bc(A, b, x, **kw)
            reqs.append({"op": "bc.init", "n": n, **{k: v.tolist() for k, v in kw.items()}})
            post.append(("init", inp, (I_impl.tolist(), D_impl.tolist())))
            if sorted(set(I_impl.tolist()) | set(D_impl.tolist())) != list(range(n)) or \
                    set(I_impl.tolist()) & set(D_impl.tolist()):
                ctx.violation("_init_bc: kept and constrained sets do not partition the indices", inp,
                              {"what": "init-partition"})
        except Exception as ex:
            ctx.violation("_init_bc raised " + exc_kind(ex), dict(inp, err=repr(ex)), {"what": "raise-init"})
            continue
        Ds = sorted(set(D))
        Is = I_impl.tolist()
        Aq = fr_mat(A)
        bq = [Fraction(v) for v in b.tolist()]
        xq = [Fraction(v) for v in x.tolist()]
        # ---- condense + solve + expand
        try:
            cond = condense(A, b, x=x, **kw)
            AII, bI, xx, II = cond
            reqs.append({"op": "bc.condense", "A": dense_q(A), "b": vec_q(b), "x": vec_q(x), "I": Is, "D": D_impl.tolist()})
            post.append(("condense", inp, (AII.toarray().tolist(), bI.tolist())))
            # exact reference
            sub = [[Aq[i][j] for j in Is] for i in Is]
            rhs = [bq[i] - sum(Aq[i][d] * xq[d] for d in Ds) for i in Is]
            sol = solve_exact(sub, rhs)
            if sol is not None:
                z = solve(*cond)
                zq = list(xq)
                for p, i in enumerate(Is):
                    zq[i] = sol[p]
                scale = max(1.0, max(abs(float(v)) for v in zq))
                if not np.allclose(z, [float(v) for v in zq], rtol=1e-9, atol=1e-9 * scale):
                    ctx.violation("solve(*condense(...)) is not x on D / does not satisfy the kept equations", inp,
                                  {"what": "condense-solution"})
                ctx.count("condense-solved")
        except Exception as ex:
            ctx.violation("condense/solve raised " + exc_kind(ex), dict(inp, err=repr(ex)), {"what": "raise-condense"})
        # ---- enforce
        try:
            diag = ctx.rng.choice([1.0, 1.0, 2.5, -3.0])
            A2, b2 = enforce(A, b, x=x, diag=diag, **kw)
            reqs.append({"op": "bc.enforce", "n": n, "A": dense_q(A), "b": vec_q(b), "x": vec_q(x),
                         "D": D_impl.tolist(), "diag": qstr(diag)})
            post.append(("enforce", dict(inp, diag=diag), (A2.toarray().tolist(), b2.tolist())))
            reqs.append({"op": "bc.enforce.idx", "indptr": A.indptr.tolist(), "D": D_impl.tolist()})
            try:
                idx_impl = [int(v) for v in idx_code(A, D_impl)] if idx_code else None
            except Exception as ex:
                idx_impl = "raises " + exc_kind(ex)
            post.append(("enforce.idx", inp, idx_impl))
            # property on the implementation: rows
            A2d = A2.toarray()
            for i in range(n):
                if i in set(D):
                    want = np.zeros(n)
                    want[i] = diag
                    if not (A2d[i] == want).all() or b2[i] != x[i]:
                        ctx.violation("enforce: constrained row is not diag*e_i with rhs x_i",
                                      dict(inp, diag=diag, row=i, got=A2d[i].tolist(), rhs=float(b2[i])),
                                      {"what": "enforce-row"})
                        break
                elif not (A2d[i] == A.toarray()[i]).all() or b2[i] != b[i]:
                    ctx.violation("enforce: an unconstrained row was modified",
                                  dict(inp, diag=diag, row=i, got=A2d[i].tolist()), {"what": "enforce-other-row"})
                    break
            # matrix right-hand side (eigenproblem)
            Mm = sp.csr_matrix(np.abs(A.toarray()) + np.eye(n))
            A3, M3 = enforce(A, Mm, **kw)
            M3d = M3.toarray()
            for i in set(D):
                if M3d[i].any():
                    ctx.violation("enforce with matrix rhs: constrained row of the mass matrix is not zero",
                                  dict(inp, row=i), {"what": "enforce-mass"})
                    break
            AIIe, MIIe, _, _ = condense(A, Mm, **kw)
            if not (AIIe.toarray() == A.toarray()[np.ix_(Is, Is)]).all() or \
                    not (MIIe.toarray() == Mm.toarray()[np.ix_(Is, Is)]).all():
                ctx.violation("condense with matrix rhs: blocks are not A_II, M_II", inp, {"what": "condense-mass"})
        except Exception as ex:
            ctx.violation("enforce raised " + exc_kind(ex), dict(inp, err=repr(ex)), {"what": "raise-enforce"})
        # ---- penalize
        try:
            eps = 2.0 ** -ctx.rng.randint(8, 20)
            A4, b4 = penalize(A, b, x=x, epsilon=eps, **kw)
            reqs.append({"op": "bc.penalize", "n": n, "A": dense_q(A), "b": vec_q(b), "x": vec_q(x),
                         "D": D_impl.tolist(), "epsInv": qstr(1.0 / eps)})
            post.append(("penalize", dict(inp, eps=eps), (A4.toarray().tolist(), b4.tolist())))
        except Exception as ex:
            ctx.violation("penalize raised " + exc_kind(ex), dict(inp, err=repr(ex)), {"what": "raise-penalize"})
        # ---- no mutation
        if checksum(A, b, x, *kw.values()) != before:
            ctx.violation("an argument was modified although overwrite was not requested", inp,
                          {"what": "operand-mutated"})
    # ---- DOF-collection types and error cases (on a real basis)
    try:
        from skfem import MeshTri, Basis, ElementTriP2, BilinearForm, LinearForm
        from skfem.models.poisson import laplace, unit_load
        m = MeshTri().refined(1)
        basis = Basis(m, ElementTriP2())
        A = laplace.assemble(basis)
        b = unit_load.assemble(basis)
        xx = basis.project(lambda x: 1 + x[0] + 2 * x[1])
        views = basis.get_dofs()
        as_array = views.flatten()
        as_dict = basis.get_dofs({"left": lambda x: x[0] == 0, "rest": lambda x: x[0] > 0})
        as_dict = {k: v for k, v in as_dict.items()}
        alld = basis.get_dofs().flatten()
        sols = []
        for Dspec in (as_array, views, {"all": views}):
            sols.append(solve(*condense(A, b, x=xx, D=Dspec)))
        ctx.case({"dof-collection-types": 3})
        if not (np.allclose(sols[0], sols[1], atol=1e-12) and np.allclose(sols[0], sols[2], atol=1e-12)):
            ctx.violation("condense gives different results for array / DofsView / dict of views",
                          {"mesh": "MeshTri().refined(1)", "element": "ElementTriP2"}, {"what": "dof-collection"})
        for bad in ({}, {"I": np.array([0]), "D": np.array([1])}):
            try:
                condense(A, b, **bad)
                ctx.violation("_init_bc accepted neither/both of I and D", {"kwargs": list(bad)}, {"what": "init-error"})
            except Exception:
                pass
        reqs.append({"op": "bc.init", "n": 4})
        post.append(("init-raises", None, None))
        reqs.append({"op": "bc.init", "n": 4, "I": [0], "D": [1]})
        post.append(("init-raises", None, None))
    except Exception as ex:
        ctx.violation("boundary-condition helpers on a real basis raised " + exc_kind(ex), {"err": repr(ex)},
                      {"what": "raise-real"})
    # ---- mpc (search only)
    try:
        from skfem.utils import mpc
        for it in range(ctx.scale(20, 200)):
            A, b, x, empty = rand_system(ctx.rng, ctx.rng.randint(4, 8))
            A = sp.csr_matrix(A.toarray() + 30 * np.eye(A.shape[0]))
            n = A.shape[0]
            idx = list(range(n))
            ctx.rng.shuffle(idx)
            k = ctx.rng.randint(1, n // 2)
            S, M = np.array(idx[:k]), np.array(idx[k:2 * k])
            T = sp.csr_matrix(np.array([[ctx.rng.randint(-2, 2) / 2 for _ in range(k)] for _ in range(k)]))
            g = np.array([ctx.rng.randint(-2, 2) / 2 for _ in range(k)])
            red = mpc(A, b, S=S, M=M, T=T, g=g)
            z = solve(*red)
            U = np.setdiff1d(np.arange(n), np.concatenate((M, S)))
            wsol = np.linalg.solve(red[0].toarray(), red[1])
            reqs.append({"op": "bc.mpc", "n": n, "A": dense_q(A), "b": vec_q(b), "U": U.tolist(), "M": M.tolist(),
                         "S": S.tolist(), "T": dense_q(T), "g": vec_q(g), "w": vec_q(wsol)})
            post.append(("mpc", {"A": A.toarray().tolist(), "S": S.tolist(), "M": M.tolist()},
                         (red[0].toarray().tolist(), red[1].tolist(), z.tolist())))
            ok = np.allclose(z[S], T @ z[M] + g, atol=1e-9)
            # reduced equations: rows U exactly; rows M combined with T^T rows S is NOT what the code does
            # (it drops the S rows): check the U rows and the M rows of A z = b
            res = A @ z - b
            ok = ok and np.allclose(res[U], 0, atol=1e-8) and np.allclose(res[M], 0, atol=1e-8)
            ctx.case({"mpc": [A.toarray().tolist(), S.tolist(), M.tolist()]})
            ctx.count("mpc")
            if not ok:
                ctx.violation("mpc: expanded solution violates the constraint or the kept equations",
                              {"A": A.toarray().tolist(), "b": b.tolist(), "S": S.tolist(), "M": M.tolist(),
                               "T": T.toarray().tolist(), "g": g.tolist()}, {"what": "mpc"})
    except Exception as ex:
        ctx.violation("mpc raised " + exc_kind(ex), {"err": repr(ex)}, {"what": "raise-mpc"})
    # ---- correspondence
    if not ctx.driver.available():
        ctx.broken.append({"kind": "driver-missing"})
        return
    outs = ctx.driver.run(reqs)

    def close(model, impl):
        model = np.array([[float(v) for v in row] for row in model]) if model and isinstance(model[0], list) \
            else np.array([float(v) for v in model])
        impl = np.array(impl, dtype=float)
        return model.shape == impl.shape and np.allclose(model, impl, rtol=1e-12, atol=1e-12)

    for (kind, inp, impl), out, req in zip(post, outs, reqs):
        if "error" in out if isinstance(out, dict) else False:
            ctx.corr("bc." + kind, False, req, out, impl)
            continue
        if kind == "init":
            ctx.corr("bc.init", out.get("I") == impl[0] and out.get("D") == impl[1], inp, out, impl)
        elif kind == "init-raises":
            ctx.corr("bc.init(raises)", out.get("raises") is True, req, out, "raises")
        elif kind == "condense":
            ctx.corr("bc.condense", close(unq(out["AII"]), impl[0]) and close(unq(out["bI"]), impl[1]), inp, out, impl)
        elif kind in ("enforce", "penalize"):
            ctx.corr("bc." + kind, close(unq(out["A"]), impl[0]) and close(unq(out["b"]), impl[1]), inp, out, impl)
        elif kind == "mpc":
            ctx.corr("bc.mpc", close(unq(out["B"]), impl[0]) and close(unq(out["y"]), impl[1])
                     and np.allclose([float(v) for v in unq(out["z"])], impl[2], rtol=1e-9, atol=1e-9), inp,
                     "model B, y, z", "implementation")
        elif kind == "enforce.idx":
            ctx.corr("bc.enforce.idx", out["idx"] == out["ranges"] and (impl is None or impl == out["idx"]), inp,
                     out["idx"], impl)
    if ctx.tier == "thorough" and not getattr(ctx, "no_lean", False):
        ctx.leanchecker(["SkfemVerif.Props.C05"])
