"""C20  Autodiff gives the true Jacobian; integrand helpers equal their definitions.

Layers
  1. proof: Props/C20.lean over the REGENERATED Gen/HelperFormulas.lean (translator
     gens/helpers.py lifts both helper modules from the live source) and over the hand-written
     model of `NonlinearForm._assemble` (Model/Autodiff.lean);
  2. correspondence: `gen-selfcheck` (generated Lean terms evaluated by the driver over Rat vs the
     live Python helpers, exact), `nl.assemble` (model with the formal derivative of a polynomial
     integrand on the implementation's own basis data vs `NonlinearForm._assemble`);
     FALLBACK: a helper whose source left the translator's AST subset (a loop over an index table, a
     comprehension, a private `*args` utility, ...) is not re-translated: its Lean definition is KEPT from
     the last successful translation (marked `-- KEPT ...` in the generated file), so the theorems then
     speak about that older formula, and the ONLY tie of that formula to the live code is the exact
     correspondence `gen-selfcheck[<helper>]` (run with three times the test points).  `ctx.translator_failed`
     records this; core reports it as the note `translator_not_applicable` if that correspondence ran and
     agrees (and the Lean modules build), as a broken obligation otherwise.  A helper that cannot be
     translated and has no previous definition is a broken obligation as before;
  3. search: helpers vs numpy.linalg / explicit loops on random tensors of every admissible
     shape, both variants; NonlinearForm on generated meshes x elements x a grammar of smooth
     integrands: residual = -LinearForm, Jacobian = hand-linearised BilinearForm (symbolic
     derivative computed here, independent of JAX) = central finite differences of the assembled
     residual, linear integrands = ordinary assembly, shapes / dtypes, hessian mode.
"""
from __future__ import annotations

import itertools
import math
from fractions import Fraction

import numpy as np

from .. import meshes, fields
from ..core import exc_kind, qstr, unq, log
from ..gens import helpers as genhelpers


# ===========================================================================
# part H: helpers

def _dy(rng, bits=2, lo=-8, hi=8):
    return rng.randint(lo, hi) / (1 << bits)


def dyadic_array(rng, shape):
    a = np.empty(shape, dtype=np.float64)
    for idx in np.ndindex(*shape):
        a[idx] = _dy(rng)
    return a


def live_args(variant, specs, arrays):
    """python arguments of the live helper for one job; arrays[k] = list of numpy arrays (one per
    binder of argument k)"""
    out = []
    for sp, arrs in zip(specs, arrays):
        if sp[0] == "T":
            a = arrs[0]
            if variant == "jax":
                import jax.numpy as jnp
                a = jnp.asarray(a)
            out.append(a)
        elif sp[0] == "F":
            kw = dict(zip(sp[2].keys(), arrs))
            trail = arrs[0].shape[-2:]
            if variant == "jax":
                import jax.numpy as jnp
                from skfem.autodiff import JaxDiscreteField
                out.append(JaxDiscreteField(jnp.zeros(trail), **{k: jnp.asarray(v) for k, v in kw.items()}))
            else:
                from skfem.element import DiscreteField
                out.append(DiscreteField(np.zeros(trail), **kw))
        else:
            out.append(sp[1])
    return out


def helper_selfcheck(ctx, results, kept=None):
    """correspondence `gen-selfcheck`: the translator is under test -- the generated Lean terms,
    evaluated by the driver on rational inputs, against the live Python helper.

    `kept` (name -> dict(variant, fname, specs, lshape, ...), from `genhelpers.generate.kept_info`): helpers
    whose Lean term was NOT translated now but kept from the last successful translation.  For them this
    comparison is the only tie between the term and the live code: it runs with three times the repetitions
    and is recorded per helper as `gen-selfcheck[<name>]` in addition to the aggregate `gen-selfcheck`."""
    kept = kept or {}

    def corr(name, is_kept, ok, inp, model, impl):
        ctx.corr("gen-selfcheck", ok, inp, model, impl)
        if is_kept:
            ctx.corr(f"gen-selfcheck[{name}]", ok, inp, model, impl)
        return ok
    if not ctx.driver.available():
        ctx.broken.append({"kind": "driver-missing"})
        return
    import skfem.helpers as NH
    import skfem.autodiff.helpers as JH
    try:
        names = ctx.driver.run([{"op": "helper.names"}])[0]
    except Exception as ex:
        ctx.broken.append({"kind": "driver", "op": "helper.names", "err": repr(ex)})
        return
    if not isinstance(names, list):
        ctx.broken.append({"kind": "driver", "op": "helper.names", "out": names})
        return
    items = [(n, {"variant": r["variant"], "fname": r["fname"], "specs": r["specs"],
                  "lshape": tuple(r["value"].lshape)}, False) for n, r in results.items()]
    items += [(n, {"variant": k["variant"], "fname": k["fname"], "specs": k["specs"],
                   "lshape": tuple(k["lshape"])}, True) for n, k in kept.items() if n not in results]
    for n, _, is_kept in items:
        if n not in names:
            corr(n, is_kept, False, {"helper": n}, "absent from the driver's table (stale build?)", None)
    reps = ctx.scale(3, 12)
    trail = (2, 2)
    reqs, post = [], []
    for name, r, is_kept in items:
        if name not in names:
            continue
        mod = NH if r["variant"] == "np" else JH
        fn = getattr(mod, r["fname"], None)
        if fn is None:
            corr(name, is_kept, False, {"helper": name}, "kept Lean term",
                 f"{mod.__name__}.{r['fname']} does not exist")
            continue
        for rep in range(3 * reps if is_kept else reps):
            arrays = []
            for sp in r["specs"]:
                if sp[0] == "T":
                    arrays.append([dyadic_array(ctx.rng, tuple(sp[2]) + trail)])
                elif sp[0] == "F":
                    arrays.append([dyadic_array(ctx.rng, tuple(shp) + trail) for shp in sp[2].values()])
                else:
                    arrays.append([])
            if r["fname"] == "inv":
                A = arrays[0][0]
                d = A.shape[0]
                for t in np.ndindex(*trail):
                    while abs(np.linalg.det(A[(slice(None), slice(None)) + t])) < 0.5:
                        A[(slice(None), slice(None)) + t] = dyadic_array(ctx.rng, (d, d)) + 2 * np.eye(d)
            try:
                out = np.asarray(fn(*live_args(r["variant"], r["specs"], arrays)))
            except Exception as ex:
                ctx.violation(f"helper {r['variant']}:{r['fname']} raised {exc_kind(ex)} on an admissible input",
                              {"helper": name, "args": [[a.tolist() for a in arrs] for arrs in arrays],
                               "err": repr(ex)}, {"what": "helper-raise", "helper": r["fname"]})
                if is_kept:
                    ctx.corr(f"gen-selfcheck[{name}]", False, {"helper": name}, "kept Lean term", repr(ex))
                continue
            lshape = r["lshape"]
            if out.shape != tuple(lshape) + trail:
                corr(name, is_kept, False, {"helper": name}, {"shape": list(lshape) + list(trail)},
                     {"shape": list(out.shape)})
                continue
            for t in np.ndindex(*trail):
                flat_args = []
                for arrs in arrays:
                    for a in arrs:
                        sub = a[(Ellipsis,) + t]
                        flat_args.append([qstr(v) for v in np.asarray(sub).reshape(-1).tolist()])
                reqs.append({"op": "helper.eval", "name": name, "args": flat_args})
                post.append((name, r, is_kept, [a[(Ellipsis,) + t].tolist() for arrs in arrays for a in arrs],
                             np.asarray(out[(Ellipsis,) + t]).reshape(-1).tolist()))
    if not reqs:
        return
    outs = ctx.driver.run(reqs)
    for (name, r, is_kept, inp, impl), o in zip(post, outs):
        if not isinstance(o, list):
            corr(name, is_kept, False, {"helper": name, "args": inp}, o, impl)
            continue
        model = unq(o)
        if r["fname"] == "inv":
            ok = len(model) == len(impl) and all(abs(float(a) - b) <= 1e-12 * max(1.0, abs(b))
                                                 for a, b in zip(model, impl))
        else:
            ok = len(model) == len(impl) and all(a == Fraction(b) for a, b in zip(model, impl))
        corr(name, is_kept, ok, {"helper": name, "args": inp}, [str(a) for a in model], impl)
        ctx.count("gen-selfcheck:" + r["variant"])
        if is_kept:
            ctx.count("gen-selfcheck:kept-definitions")


# ---- independent oracles (pointwise definitions, plain loops) ---------------

def _pt(fun, arrs, trail, oshape):
    out = np.empty(tuple(oshape) + tuple(trail), dtype=complex if any(np.iscomplexobj(a) for a in arrs) else float)
    for t in np.ndindex(*trail):
        out[(Ellipsis,) + t] = fun(*[a[(Ellipsis,) + t] for a in arrs])
    return out


def _sc(z):
    """scalar of the field the inputs live in (the definitions are algebraic: no conjugation)"""
    return complex(z) if np.iscomplexobj(z) else float(z)


def o_det(A):
    return _sc(np.linalg.det(A))


def o_inv(A):
    return np.linalg.inv(A)


def o_dot(u, v):
    return sum(_sc(u[i]) * _sc(v[i]) for i in range(len(u)))


def o_ddot(u, v):
    d = u.shape[0]
    return sum(_sc(u[i, j]) * _sc(v[i, j]) for i in range(d) for j in range(d))


def o_dddot(u, v):
    d = u.shape[0]
    return sum(_sc(u[i, j, k]) * _sc(v[i, j, k]) for i in range(d) for j in range(d) for k in range(d))


def o_prod(u, v):
    return np.array([[u[i] * v[j] for j in range(len(v))] for i in range(len(u))])


def o_tprod(u, v, w):
    return np.array([[[u[i] * v[j] * w[k] for k in range(len(w))] for j in range(len(v))] for i in range(len(u))])


def o_mulv(A, x):
    d = A.shape[0]
    return np.array([sum(A[i, j] * x[j] for j in range(d)) for i in range(d)])


def o_mulm(A, B):
    d = A.shape[0]
    return np.array([[sum(A[i, j] * B[j, k] for j in range(d)) for k in range(d)] for i in range(d)])


def o_trace(T):
    return sum(_sc(T[i, i]) for i in range(T.shape[0]))


def o_transpose(T):
    d = T.shape[0]
    return np.array([[T[j, i] for j in range(d)] for i in range(d)])


def o_symgrad(G):
    d = G.shape[0]
    return np.array([[(G[i, j] + G[j, i]) / 2 for j in range(d)] for i in range(d)])


def o_cross(a, b):
    if len(a) == 2:
        return a[0] * b[1] - a[1] * b[0]
    return np.cross(a, b)


def o_curl(G):
    if G.shape == (2,):
        return np.array([G[1], -G[0]])
    if G.shape == (2, 2):
        return G[1, 0] - G[0, 1]
    # levi-civita
    out = np.zeros(3, dtype=G.dtype)
    for i, j, k, s in ((0, 1, 2, 1), (1, 2, 0, 1), (2, 0, 1, 1), (0, 2, 1, -1), (2, 1, 0, -1), (1, 0, 2, -1)):
        out[i] += s * G[k, j]          # (curl u)_i = eps_ijk d_j u_k,  G[k, j] = d u_k / d x_j
    return out


COMPLEX_ROUND = {"on": False}


def rand_tensor(rng, shape, view):
    a = np.array([rng.gauss(0, 1) for _ in range(int(np.prod(shape)) if shape else 1)]).reshape(shape)
    if COMPLEX_ROUND["on"]:
        a = a + 1j * np.array([rng.gauss(0, 1) for _ in range(int(np.prod(shape)) if shape else 1)]).reshape(shape)
    if view == "fortran":
        a = np.asfortranarray(a)
    elif view == "strided" and len(shape) >= 1:
        big = np.zeros(tuple(shape[:-1]) + (2 * shape[-1],), dtype=a.dtype)
        big[..., ::2] = a
        a = big[..., ::2]
    return a


def helper_search(ctx):
    """both variants vs numpy.linalg / explicit pointwise loops; agreement of the variants"""
    import jax.numpy as jnp
    import skfem.helpers as NH
    import skfem.autodiff.helpers as JH
    from skfem.element import DiscreteField
    from skfem.autodiff import JaxDiscreteField

    def close(a, b, tol):
        a, b = np.asarray(a), np.asarray(b)
        a = a.astype(complex if (np.iscomplexobj(a) or np.iscomplexobj(b)) else float)
        b = b.astype(a.dtype)
        if a.shape != b.shape:
            return False
        if a.size == 0:
            return True
        return bool(np.all(np.abs(a - b) <= tol * max(1.0, float(np.max(np.abs(b))))))

    def report(hname, variant, inp, got, want, tol, what="helper differs from its definition"):
        ok = close(got, want, tol)
        if not ok:
            ctx.violation(f"{what}: {variant}:{hname}", dict(inp, helper=hname, variant=variant,
                                                              got=np.asarray(got).tolist(),
                                                              want=np.asarray(want).tolist()),
                          {"what": "helper-value", "helper": hname, "variant": variant})
        return ok

    trails = [(), (3,), (2, 3), (1, 1), (4, 1)]
    n_rounds = ctx.scale(4, 30)
    for rnd in range(n_rounds):
        # every fourth round with COMPLEX entries (the definitions are algebraic: they hold over the complex numbers)
        COMPLEX_ROUND["on"] = (rnd % 4 == 3)
        if COMPLEX_ROUND["on"]:
            ctx.count("helper-round:complex")
        for d in (2, 3):
            for trail in trails:
                view = ctx.rng.choice(["c", "c", "fortran", "strided"])
                A = rand_tensor(ctx.rng, (d, d) + trail, view)
                B = rand_tensor(ctx.rng, (d, d) + trail, view)
                u = rand_tensor(ctx.rng, (d,) + trail, view)
                v = rand_tensor(ctx.rng, (d,) + trail, view)
                w3 = rand_tensor(ctx.rng, (d,) + trail, view)
                S = rand_tensor(ctx.rng, (d, d, d) + trail, view)
                S2 = rand_tensor(ctx.rng, (d, d, d) + trail, view)
                w0 = rand_tensor(ctx.rng, trail, "c")
                # well conditioned matrix for inv
                Ainv = A + 3.0 * np.eye(d).reshape((d, d) + (1,) * len(trail))
                inp = {"d": d, "trail": list(trail), "view": view, "A": A.tolist(), "B": B.tolist(),
                       "u": u.tolist(), "v": v.tolist()}
                ctx.case({"part": "helpers", "d": d, "trail": list(trail), "view": view, "round": rnd},
                         nontrivial=True, sample={"part": "helpers", "d": d, "trail": list(trail)}
                         if (rnd == 0 and d == 3 and trail == (2, 3)) else None)
                ctx.count(f"helpers:d={d}:trail={len(trail)}")
                cases = [
                    ("det", (A,), _pt(o_det, (A,), trail, ()), True),
                    ("dot", (u, v), _pt(o_dot, (u, v), trail, ()), True),
                    ("ddot", (A, B), _pt(o_ddot, (A, B), trail, ()), True),
                    ("dddot", (S, S2), _pt(o_dddot, (S, S2), trail, ()), True),
                    ("prod", (u, v), _pt(o_prod, (u, v), trail, (d, d)), True),
                    ("prod", (u, v, w3), _pt(o_tprod, (u, v, w3), trail, (d, d, d)), True),
                    ("mul", (A, u), _pt(o_mulv, (A, u), trail, (d,)), True),
                    ("mul", (A, B), _pt(o_mulm, (A, B), trail, (d, d)), True),
                    ("trace", (A,), _pt(o_trace, (A,), trail, ()), True),
                    ("transpose", (A,), _pt(o_transpose, (A,), trail, (d, d)), True),
                    ("inv", (Ainv,), _pt(o_inv, (Ainv,), trail, (d, d)), False),
                    ("cross", (u, v), _pt(o_cross, (u, v), trail, () if d == 2 else (3,)), False),
                ]
                for hname, args, want, both in cases:
                    outs = {}
                    for variant, mod in (("np", NH), ("jax", JH)):
                        if variant == "jax" and not both:
                            if hasattr(mod, hname):
                                ctx.count("jax-helper-appeared:" + hname)
                            else:
                                continue
                        try:
                            a2 = [jnp.asarray(a) for a in args] if variant == "jax" else list(args)
                            got = np.asarray(getattr(mod, hname)(*a2))
                        except Exception as ex:
                            ctx.violation(f"helper {variant}:{hname} raised {exc_kind(ex)} on an admissible input",
                                          dict(inp, helper=hname, variant=variant, err=repr(ex)),
                                          {"what": "helper-raise", "helper": hname, "variant": variant})
                            continue
                        outs[variant] = got
                        report(hname, variant, inp, got, want, 1e-10 if hname == "inv" else 1e-12)
                    if len(outs) == 2:
                        if not close(outs["np"], outs["jax"], 1e-13):
                            ctx.violation(f"NumPy and JAX variants of {hname} disagree",
                                          dict(inp, helper=hname, np=outs["np"].tolist(), jax=outs["jax"].tolist()),
                                          {"what": "helper-variants", "helper": hname})
                # eye / identity
                for variant, mod in (("np", NH), ("jax", JH)):
                    try:
                        got = np.asarray(mod.eye(jnp.asarray(w0) if variant == "jax" else w0, d))
                        want = np.zeros((d, d) + trail, dtype=np.asarray(w0).dtype)
                        for i in range(d):
                            want[i, i] = w0
                        report("eye", variant, dict(inp, w=w0.tolist()), got, want, 1e-15)
                    except Exception as ex:
                        ctx.violation(f"helper {variant}:eye raised {exc_kind(ex)}", dict(inp, err=repr(ex)),
                                      {"what": "helper-raise", "helper": "eye", "variant": variant})
                if len(trail) == 2:
                    try:
                        want = np.zeros((d, d) + trail)
                        for i in range(d):
                            want[i, i] = 1.0
                        report("identity", "np", inp, NH.identity(A), want, 0.0)
                        report("identity", "np", inp, NH.identity(w0, N=d), want, 0.0)
                    except Exception as ex:
                        ctx.violation(f"helper np:identity raised {exc_kind(ex)}", dict(inp, err=repr(ex)),
                                      {"what": "helper-raise", "helper": "identity", "variant": "np"})
                    # field helpers: exactly two trailing axes (cells x points)
                    val = np.zeros(trail)
                    fn_ = DiscreteField(value=u, grad=A)
                    fj_ = JaxDiscreteField(jnp.asarray(u), grad=jnp.asarray(A))
                    fld = [("sym_grad", _pt(o_symgrad, (A,), trail, (d, d)), True),
                           ("div", _pt(o_trace, (A,), trail, ()), True),
                           ("grad", A, True),
                           ("curl", _pt(o_curl, (A,), trail, () if d == 2 else (3,)), False),
                           ("d", A, False)]
                    for hname, want, both in fld:
                        outs = {}
                        for variant, mod, f_ in (("np", NH, fn_), ("jax", JH, fj_)):
                            if variant == "jax" and not both:
                                continue
                            try:
                                got = np.asarray(getattr(mod, hname)(f_))
                            except Exception as ex:
                                ctx.violation(f"helper {variant}:{hname} raised {exc_kind(ex)}",
                                              dict(inp, helper=hname, err=repr(ex)),
                                              {"what": "helper-raise", "helper": hname, "variant": variant})
                                continue
                            outs[variant] = got
                            report(hname, variant, inp, got, want, 1e-13)
                        if len(outs) == 2 and not close(outs["np"], outs["jax"], 1e-14):
                            ctx.violation(f"NumPy and JAX variants of {hname} disagree", dict(inp, helper=hname),
                                          {"what": "helper-variants", "helper": hname})
                    if d == 2:
                        g = rand_tensor(ctx.rng, (2,) + trail, "c")
                        try:
                            report("curl", "np", dict(inp, g=g.tolist()),
                                   NH.curl(DiscreteField(value=val, grad=g)), _pt(o_curl, (g,), trail, (2,)), 1e-15)
                        except Exception as ex:
                            ctx.violation(f"helper np:curl (scalar) raised {exc_kind(ex)}", dict(inp, err=repr(ex)),
                                          {"what": "helper-raise", "helper": "curl", "variant": "np"})
                    # fields that carry div / curl themselves (H(div), H(curl) elements)
                    dv = rand_tensor(ctx.rng, trail, "c")
                    try:
                        report("div", "np", inp, NH.div(DiscreteField(value=u, div=dv)), dv, 0.0,
                               "div of a field carrying its divergence")
                        try:
                            gotj = JH.div(JaxDiscreteField(jnp.asarray(u), div=jnp.asarray(dv)))
                            report("div", "jax", inp, np.asarray(gotj), dv, 0.0,
                                   "div of a field carrying its divergence")
                        except Exception as ex:
                            ctx.violation(f"jax:div raised {exc_kind(ex)} on a field that carries its divergence and "
                                          "no gradient (H(div) element); the NumPy variant returns u.div",
                                          {"d": d, "trail": list(trail), "value": u.tolist(), "div": dv.tolist(),
                                           "grad": None, "err": repr(ex)},
                                          {"what": "helper-raise", "helper": "div", "variant": "jax"})
                        report("curl", "np", inp, NH.curl(DiscreteField(value=u, curl=dv)), dv, 0.0,
                               "curl of a field carrying its curl")
                        report("d", "np", inp, NH.d(DiscreteField(value=u, div=dv)), dv, 0.0)
                        # inner dispatches on the rank
                        report("inner", "np", inp, NH.inner(A, B), _pt(o_ddot, (A, B), trail, ()), 1e-12)
                        report("inner", "np", inp, NH.inner(u, v), _pt(o_dot, (u, v), trail, ()), 1e-12)
                        report("inner", "np", inp, NH.inner(w0, dv), w0 * dv, 1e-15)
                    except Exception as ex:
                        ctx.violation(f"field helper raised {exc_kind(ex)}", dict(inp, err=repr(ex)),
                                      {"what": "helper-raise", "helper": "field"})
    # one-dimensional divergence (numpy variant falls back to u.grad[0])
    g1 = rand_tensor(ctx.rng, (1, 3, 2), "c")
    try:
        got = NH.div(DiscreteField(value=np.zeros((3, 2)), grad=g1))
        if not close(got, g1[0], 0.0):
            ctx.violation("np:div of a one-dimensional field is not its derivative", {"grad": g1.tolist()},
                          {"what": "helper-value", "helper": "div", "variant": "np"})
        gotj = JH.div(JaxDiscreteField(jnp.zeros((3, 2)), grad=jnp.asarray(g1)))
        if gotj is None or not close(np.asarray(gotj), g1[0], 0.0):
            ctx.violation("jax:div of a one-dimensional field is not its derivative (NumPy variant: u.grad[0])",
                          {"grad": g1.tolist(), "got": None if gotj is None else np.asarray(gotj).tolist()},
                          {"what": "helper-value", "helper": "div", "variant": "jax"})
    except Exception as ex:
        ctx.violation(f"div (1-D) raised {exc_kind(ex)}", {"err": repr(ex)},
                      {"what": "helper-raise", "helper": "div"})
    # F3 witness: the integer matrix of C20_jaxdet_old_counterexample on the live JAX determinant
    W = np.array([[1., 1, 0], [0, 1, 1], [1, 0, 1]])
    for variant, mod in (("np", NH), ("jax", JH)):
        got = float(np.asarray(mod.det(jnp.asarray(W) if variant == "jax" else W)))
        if got != 2.0:
            ctx.violation(f"{variant}:det of [[1,1,0],[0,1,1],[1,0,1]] is {got}, the determinant is 2",
                          {"A": W.tolist(), "variant": variant, "got": got, "numpy.linalg.det": float(np.linalg.det(W))},
                          {"what": "helper-value", "helper": "det", "variant": variant})
    if ctx.driver.available():
        try:
            old = unq(ctx.driver.run([{"op": "helper.olddet", "A": [qstr(v) for v in W.reshape(-1).tolist()]}])[0])
            ctx.notes["F3_old_term_on_witness"] = str(old)
        except Exception:
            pass


# ===========================================================================
# part N: NonlinearForm

# ---- expression IR ----------------------------------------------------------
# ('c', float) ('u', f, kind, idx) ('x', i) ('p', name)
# ('+', a, b) ('*', a, b) ('neg', a) ('/', a, b) ('exp', a) ('sin', a) ('cos', a) ('sqrt', a) ('pow', a, n)

def C_(v):
    return ("c", float(v))


def add(a, b):
    if a is None:
        return b
    if b is None:
        return a
    return ("+", a, b)


def mul(a, b):
    if a is None or b is None:
        return None
    if a == ("c", 1.0):
        return b
    if b == ("c", 1.0):
        return a
    return ("*", a, b)


def neg(a):
    return None if a is None else ("neg", a)


def sub(a, b):
    return add(a, neg(b))


def ev(e, atom, xp):
    k = e[0]
    if k == "c":
        return e[1]
    if k in ("u", "x", "p"):
        return atom(e)
    if k == "+":
        return ev(e[1], atom, xp) + ev(e[2], atom, xp)
    if k == "*":
        return ev(e[1], atom, xp) * ev(e[2], atom, xp)
    if k == "/":
        return ev(e[1], atom, xp) / ev(e[2], atom, xp)
    if k == "neg":
        return -ev(e[1], atom, xp)
    if k == "pow":
        return ev(e[1], atom, xp) ** e[2]
    return getattr(xp, k)(ev(e[1], atom, xp))


def diff(e, a):
    """symbolic partial derivative with respect to the u-atom `a`; None = identically zero"""
    k = e[0]
    if k == "u":
        return C_(1) if e == a else None
    if k in ("c", "x", "p"):
        return None
    if k == "+":
        return add(diff(e[1], a), diff(e[2], a))
    if k == "*":
        return add(mul(diff(e[1], a), e[2]), mul(e[1], diff(e[2], a)))
    if k == "/":
        # (f/g)' = f'/g - f g'/g^2
        d1, d2 = diff(e[1], a), diff(e[2], a)
        t1 = None if d1 is None else ("/", d1, e[2])
        t2 = None if d2 is None else ("/", mul(e[1], d2), ("*", e[2], e[2]))
        return sub(t1, t2)
    if k == "neg":
        return neg(diff(e[1], a))
    d = diff(e[1], a)
    if d is None:
        return None
    if k == "pow":
        n = e[2]
        return mul(mul(C_(n), ("pow", e[1], n - 1) if n != 2 else e[1]), d)
    if k == "exp":
        return mul(e, d)
    if k == "sin":
        return mul(("cos", e[1]), d)
    if k == "cos":
        return mul(neg(("sin", e[1])), d)
    if k == "sqrt":
        return ("/", d, ("*", C_(2), e))
    raise ValueError(k)


def atoms_of(e, acc):
    if e is None:
        return acc
    if e[0] == "u":
        acc.add(e)
    elif e[0] in ("+", "*", "/"):
        atoms_of(e[1], acc)
        atoms_of(e[2], acc)
    elif e[0] in ("neg", "exp", "sin", "cos", "sqrt", "pow"):
        atoms_of(e[1], acc)
    return acc


def size_of(e):
    if e is None or e[0] in ("c", "u", "x", "p"):
        return 1
    return 1 + sum(size_of(s) for s in e[1:] if isinstance(s, tuple))


def show(e):
    if e is None:
        return "0"
    k = e[0]
    if k == "c":
        return repr(e[1])
    if k == "u":
        return f"u{e[1]}.{e[2]}{list(e[3])}"
    if k == "x":
        return f"x{e[1]}"
    if k == "p":
        return e[1]
    if k in ("+", "*", "/"):
        return f"({show(e[1])} {k} {show(e[2])})"
    if k == "neg":
        return f"-{show(e[1])}"
    if k == "pow":
        return f"{show(e[1])}**{e[2]}"
    return f"{k}({show(e[1])})"


# ---- tensor algebra over expressions (independent of skfem.helpers) ----------

def U(f, kind, *idx):
    return ("u", f, kind, tuple(idx))


def e_sum(xs):
    tot = None
    for x in xs:
        tot = add(tot, x)
    return tot if tot is not None else C_(0)


def e_dot(a, b):
    return e_sum(mul(x, y) for x, y in zip(a, b))


def e_ddot(A, B):
    return e_sum(mul(A[i][j], B[i][j]) for i in range(len(A)) for j in range(len(A)))


def e_matmul(A, B):
    n = len(A)
    return [[e_sum(mul(A[i][k], B[k][j]) for k in range(n)) for j in range(n)] for i in range(n)]


def e_T(A):
    n = len(A)
    return [[A[j][i] for j in range(n)] for i in range(n)]


def e_madd(A, B):
    n = len(A)
    return [[add(A[i][j], B[i][j]) for j in range(n)] for i in range(n)]


def e_scal(c, A):
    n = len(A)
    return [[mul(c, A[i][j]) for j in range(n)] for i in range(n)]


def e_eye(w, n):
    return [[w if i == j else C_(0) for j in range(n)] for i in range(n)]


def e_trace(A):
    return e_sum(A[i][i] for i in range(len(A)))


def e_det(A):
    n = len(A)
    tot = None
    for perm in itertools.permutations(range(n)):
        sgn = 1
        for i in range(n):
            for j in range(i + 1, n):
                if perm[i] > perm[j]:
                    sgn = -sgn
        t = C_(sgn)
        for i in range(n):
            t = mul(t, A[i][perm[i]])
        tot = add(tot, t)
    return tot


def e_matvec(A, x):
    n = len(A)
    return [e_sum(mul(A[i][j], x[j]) for j in range(n)) for i in range(n)]


# ---- field structure of a basis ------------------------------------------------

def field_struct(basis):
    """[(kind, ncomp)] per field: 'scalar' (value (nt,nq), grad (dim,nt,nq)) or 'vector'"""
    out = []
    for fld in basis.basis[0]:
        v = np.asarray(fld.value)
        if fld.grad is None:
            if fld.div is not None and v.ndim == 3:
                out.append(("hdiv", v.shape[0]))
                continue
            return None
        if v.ndim == 2:
            out.append(("scalar", 1))
        elif v.ndim == 3:
            out.append(("vector", v.shape[0]))
        else:
            return None
    return out


def vvec(f, n):
    return [U(f, "val", i) for i in range(n)]


def gmat(f, n, dim):
    return [[U(f, "grad", i, j) for j in range(dim)] for i in range(n)]


def gvec(f, dim):
    return [U(f, "grad", j) for j in range(dim)]


def as_test(a):
    """u-atom -> the same component of the test function"""
    return ("v",) + a[1:]


# ---- integrand templates ---------------------------------------------------------
# a template returns dict(name, jax (callable form), terms [(coef expr, test atom)], linear (bool),
#                         params {name: value})

def tmpl_scalar_quasilinear(dim):
    import jax.numpy as jnp
    from skfem.autodiff.helpers import grad, dot

    def form(u, v, w):
        return ((1. + u * u) * dot(grad(u), grad(v)) + jnp.exp(0.3 * u.value) * v * w.x[0]
                + jnp.sqrt(1. + dot(grad(u), grad(u))) * v * w.t)
    u = U(0, "val")
    gu = gvec(0, dim)
    terms = [(mul(add(C_(1), mul(u, u)), gu[j]), ("v", 0, "grad", (j,))) for j in range(dim)]
    terms.append((add(mul(("exp", mul(C_(0.3), u)), ("x", 0)),
                      mul(("sqrt", add(C_(1), e_dot(gu, gu))), ("p", "t"))), ("v", 0, "val", ())))
    return dict(name="quasilinear+exp+sqrt", jax=form, terms=terms, linear=False, params={"t": 0.75})


def tmpl_minimal_surface(dim):
    import jax.numpy as jnp
    from skfem.autodiff.helpers import grad, dot

    def form(u, v, w):
        return dot(grad(u), grad(v)) / jnp.sqrt(1. + dot(grad(u), grad(u))) + jnp.sin(u.value) * v \
            - jnp.cos(w.x[0]) * v
    u = U(0, "val")
    gu = gvec(0, dim)
    den = ("sqrt", add(C_(1), e_dot(gu, gu)))
    terms = [(("/", gu[j], den), ("v", 0, "grad", (j,))) for j in range(dim)]
    terms.append((sub(("sin", u), ("cos", ("x", 0))), ("v", 0, "val", ())))
    return dict(name="minimal-surface+sin", jax=form, terms=terms, linear=False, params={})


def tmpl_poisson(dim):
    import jax.numpy as jnp
    from skfem.autodiff.helpers import grad, dot

    def form(u, v, w):
        return dot(grad(u), grad(v)) + w.x[0] * u * v - jnp.sin(w.x[0]) * v
    u = U(0, "val")
    gu = gvec(0, dim)
    terms = [(gu[j], ("v", 0, "grad", (j,))) for j in range(dim)]
    terms.append((sub(mul(("x", 0), u), ("sin", ("x", 0))), ("v", 0, "val", ())))
    return dict(name="poisson(affine)", jax=form, terms=terms, linear=True, params={})


def tmpl_svk(dim):
    """St. Venant-Kirchhoff elasticity as in tests/test_autodiff.py (transpose, mul, eye, trace, ddot)"""
    from skfem.autodiff.helpers import grad, ddot, mul as jmul, transpose, eye, trace

    def form(u, v, w):
        epsu = .5 * (grad(u) + transpose(grad(u)) + jmul(transpose(grad(u)), grad(u)))
        epsv = .5 * (grad(v) + transpose(grad(v)))
        sigu = 2 * 10 * epsu + 1. * eye(trace(epsu), dim)
        return ddot(sigu, epsv) - w.t * 2e-2 * v[1]
    G = gmat(0, dim, dim)
    eps = e_scal(C_(.5), e_madd(e_madd(G, e_T(G)), e_matmul(e_T(G), G)))
    sig = e_madd(e_scal(C_(20.), eps), e_eye(e_trace(eps), dim))
    terms = []
    for i in range(dim):
        for j in range(dim):
            # epsv_ij = (dv_i/dx_j + dv_j/dx_i)/2
            terms.append((mul(C_(.5), sig[i][j]), ("v", 0, "grad", (i, j))))
            terms.append((mul(C_(.5), sig[i][j]), ("v", 0, "grad", (j, i))))
    terms.append((neg(mul(("p", "t"), C_(2e-2))), ("v", 0, "val", (1,))))
    return dict(name="st-venant-kirchhoff", jax=form, terms=terms, linear=False, params={"t": 0.6})


def tmpl_det(dim):
    """deformation gradient: det (both sizes), div, mul (matrix-matrix), transpose, ddot, eye"""
    from skfem.autodiff.helpers import grad, ddot, mul as jmul, transpose, eye, det, div, dot

    def form(u, v, w):
        F = grad(u) + eye(1. + 0. * u.value[0], dim)
        return det(F) * div(v) + ddot(jmul(F, transpose(F)), grad(v)) + det(F) * det(F) * dot(u, v)
    G = gmat(0, dim, dim)
    F = e_madd(G, e_eye(C_(1), dim))
    J = e_det(F)
    FFt = e_matmul(F, e_T(F))
    terms = []
    for i in range(dim):
        terms.append((J, ("v", 0, "grad", (i, i))))
        terms.append((mul(mul(J, J), U(0, "val", i)), ("v", 0, "val", (i,))))
        for j in range(dim):
            terms.append((FFt[i][j], ("v", 0, "grad", (i, j))))
    return dict(name="det(F)+F.F^T", jax=form, terms=terms, linear=False, params={})


def tmpl_vector_products(dim):
    """prod (2 and 3 arguments), dddot, trace, mul (matrix-vector), sym_grad"""
    from skfem.autodiff.helpers import grad, dot, dddot, prod, trace, mul as jmul, sym_grad, ddot

    def form(u, v, w):
        return (dddot(prod(u, u, u), prod(v, u, u)) + trace(prod(u, v)) * w.x[1]
                + dot(jmul(grad(u), u), v) + ddot(sym_grad(u), sym_grad(v)))
    uu = vvec(0, dim)
    G = gmat(0, dim, dim)
    conv = e_matvec(G, uu)
    u2 = e_dot(uu, uu)
    terms = []
    for i in range(dim):
        terms.append((add(add(mul(uu[i], mul(u2, u2)), mul(uu[i], ("x", 1))), conv[i]), ("v", 0, "val", (i,))))
        for j in range(dim):
            sg = mul(C_(.5), add(G[i][j], G[j][i]))
            terms.append((mul(C_(.5), sg), ("v", 0, "grad", (i, j))))
            terms.append((mul(C_(.5), sg), ("v", 0, "grad", (j, i))))
    return dict(name="prod/dddot/trace/mul/sym_grad", jax=form, terms=terms, linear=False, params={})


def tmpl_elasticity(dim):
    from skfem.autodiff.helpers import ddot, sym_grad, div, dot

    def form(u, v, w):
        return 2. * ddot(sym_grad(u), sym_grad(v)) + 3. * div(u) * div(v) + w.x[0] * dot(u, v) - v[0]
    G = gmat(0, dim, dim)
    uu = vvec(0, dim)
    dv = e_trace(G)
    terms = []
    for i in range(dim):
        terms.append((mul(C_(3.), dv), ("v", 0, "grad", (i, i))))
        terms.append((sub(mul(("x", 0), uu[i]), C_(1) if i == 0 else None), ("v", 0, "val", (i,))))
        for j in range(dim):
            sg = mul(C_(.5), add(G[i][j], G[j][i]))
            terms.append((sg, ("v", 0, "grad", (i, j))))
            terms.append((sg, ("v", 0, "grad", (j, i))))
    return dict(name="linear-elasticity(affine)", jax=form, terms=terms, linear=True, params={})


def tmpl_navier_stokes(dim):
    """vector + scalar composite, as in tests/test_autodiff.py"""
    from skfem.autodiff.helpers import grad, dot, ddot, mul as jmul, div, sym_grad

    def form(u, p, v, q, w):
        return (ddot(sym_grad(u), sym_grad(v)) + dot(jmul(grad(u), u), v)
                - div(u) * q - div(v) * p - 1e-3 * p * q)
    G = gmat(0, dim, dim)
    uu = vvec(0, dim)
    p = U(1, "val")
    conv = e_matvec(G, uu)
    terms = []
    for i in range(dim):
        terms.append((conv[i], ("v", 0, "val", (i,))))
        terms.append((neg(p), ("v", 0, "grad", (i, i))))
        for j in range(dim):
            sg = mul(C_(.5), add(G[i][j], G[j][i]))
            terms.append((mul(C_(.5), sg), ("v", 0, "grad", (i, j))))
            terms.append((mul(C_(.5), sg), ("v", 0, "grad", (j, i))))
    terms.append((sub(neg(e_trace(G)), mul(C_(1e-3), p)), ("v", 1, "val", ())))
    return dict(name="navier-stokes", jax=form, terms=terms, linear=False, params={})


def tmpl_stokes(dim):
    from skfem.autodiff.helpers import ddot, div, sym_grad

    def form(u, p, v, q, w):
        return ddot(sym_grad(u), sym_grad(v)) - div(u) * q - div(v) * p - 1e-2 * p * q + w.x[0] * v[0]
    G = gmat(0, dim, dim)
    p = U(1, "val")
    terms = [(("x", 0), ("v", 0, "val", (0,)))]
    for i in range(dim):
        terms.append((neg(p), ("v", 0, "grad", (i, i))))
        for j in range(dim):
            sg = mul(C_(.5), add(G[i][j], G[j][i]))
            terms.append((mul(C_(.5), sg), ("v", 0, "grad", (i, j))))
            terms.append((mul(C_(.5), sg), ("v", 0, "grad", (j, i))))
    terms.append((sub(neg(e_trace(G)), mul(C_(1e-2), p)), ("v", 1, "val", ())))
    return dict(name="stokes(affine)", jax=form, terms=terms, linear=True, params={})


def tmpl_two_scalars(dim):
    """scalar x scalar composite: reaction-diffusion system with exp coupling"""
    import jax.numpy as jnp
    from skfem.autodiff.helpers import grad, dot

    def form(a, b, va, vb, w):
        return (dot(grad(a), grad(va)) + (1. + a * a) * dot(grad(b), grad(vb)) + jnp.exp(0.2 * a.value * b.value) * va
                - a * b * b * vb + w.x[0] * vb)
    a, b = U(0, "val"), U(1, "val")
    ga, gb = gvec(0, dim), gvec(1, dim)
    terms = []
    for j in range(dim):
        terms.append((ga[j], ("v", 0, "grad", (j,))))
        terms.append((mul(add(C_(1), mul(a, a)), gb[j]), ("v", 1, "grad", (j,))))
    terms.append((("exp", mul(C_(0.2), mul(a, b))), ("v", 0, "val", ())))
    terms.append((sub(("x", 0), mul(a, mul(b, b))), ("v", 1, "val", ())))
    return dict(name="two-scalars(exp coupling)", jax=form, terms=terms, linear=False, params={})


def tmpl_mixed(dim):
    """H(div) x L2 composite (Raviart-Thomas x P0): `div` of a field that carries its divergence"""
    from skfem.autodiff.helpers import dot, div

    def form(s, u, t, v, w):
        return (1. + u * u) * dot(s, t) + v * div(s) + u * div(t) - w.x[0] * v
    u = U(1, "val")
    ss = vvec(0, dim)
    terms = [(mul(add(C_(1), mul(u, u)), ss[i]), ("v", 0, "val", (i,))) for i in range(dim)]
    terms.append((u, ("v", 0, "div", ())))
    terms.append((sub(U(0, "div"), ("x", 0)), ("v", 1, "val", ())))
    return dict(name="mixed(H(div) x L2)", jax=form, terms=terms, linear=False, params={})


def tmpl_mixed_linear(dim):
    from skfem.autodiff.helpers import dot, div

    def form(s, u, t, v, w):
        return dot(s, t) + v * div(s) + u * div(t) - w.x[0] * v
    u = U(1, "val")
    ss = vvec(0, dim)
    terms = [(ss[i], ("v", 0, "val", (i,))) for i in range(dim)]
    terms.append((u, ("v", 0, "div", ())))
    terms.append((sub(U(0, "div"), ("x", 0)), ("v", 1, "val", ())))
    return dict(name="mixed-poisson(affine)", jax=form, terms=terms, linear=True, params={})


def random_expr(rng, atoms, dim, depth):
    """smooth random coefficient: polynomial / exp / sin / sqrt(1 + sum of squares) of atoms, x"""
    r = rng.random()
    if depth <= 0 or r < 0.25:
        c = rng.random()
        if c < 0.6:
            return rng.choice(atoms)
        if c < 0.8:
            return ("x", rng.randrange(dim))
        return C_(rng.randint(-4, 4) / 2)
    if r < 0.45:
        return ("+", random_expr(rng, atoms, dim, depth - 1), random_expr(rng, atoms, dim, depth - 1))
    if r < 0.7:
        return ("*", random_expr(rng, atoms, dim, depth - 1), random_expr(rng, atoms, dim, depth - 1))
    if r < 0.78:
        return ("exp", ("*", C_(0.2), random_expr(rng, atoms, dim, depth - 1)))
    if r < 0.86:
        return (rng.choice(["sin", "cos"]), random_expr(rng, atoms, dim, depth - 1))
    if r < 0.93:
        a, b = random_expr(rng, atoms, dim, depth - 1), random_expr(rng, atoms, dim, depth - 1)
        return ("sqrt", ("+", C_(1), ("+", ("*", a, a), ("*", b, b))))
    return ("pow", random_expr(rng, atoms, dim, depth - 1), rng.choice([2, 3]))


def all_atoms(struct, dim):
    out = []
    for f, (kind, n) in enumerate(struct):
        if kind == "scalar":
            out.append(U(f, "val"))
            out += [U(f, "grad", j) for j in range(dim)]
        elif kind == "hdiv":
            out += [U(f, "val", i) for i in range(n)] + [U(f, "div")]
        else:
            out += [U(f, "val", i) for i in range(n)]
            out += [U(f, "grad", i, j) for i in range(n) for j in range(dim)]
    return out


def tmpl_random(rng, struct, dim):
    atoms = all_atoms(struct, dim)
    nterms = rng.randint(1, 3)
    terms = []
    for _ in range(nterms):
        coef = random_expr(rng, atoms, dim, rng.randint(1, 3))
        terms.append((coef, as_test(rng.choice(atoms))))
    # make sure the unknown occurs
    if not any(atoms_of(c, set()) for c, _ in terms):
        a = rng.choice(atoms)
        terms.append((mul(a, a), as_test(rng.choice(atoms))))
    return dict(name="random-grammar", jax=None, terms=terms, linear=False, params={})


def tmpl_field_arith(dim):
    """every arithmetic operator of the bare field objects (not of their value arrays)"""
    from skfem.autodiff.helpers import grad, dot

    def form(u, v, w):
        return (dot(grad(u), grad(v)) + (1. - u) * v + (u - 0.5) * (u / 2.) * v + (u ** 2) * v
                + (u + 1.) * (u + u) * v + (u - u * w.x[0]) * v + (w.x[0] - u) * v + (u * u / 4.) * v)
    u = U(0, "val")
    gu = gvec(0, dim)
    terms = [(gu[j], ("v", 0, "grad", (j,))) for j in range(dim)]
    x0 = ("x", 0)
    terms.append((e_sum([sub(C_(1), u), mul(sub(u, C_(0.5)), mul(C_(0.5), u)), mul(u, u),
                         mul(add(u, C_(1)), add(u, u)), sub(u, mul(u, x0)), sub(x0, u),
                         mul(C_(0.25), mul(u, u))]), ("v", 0, "val", ())))
    return dict(name="field-arithmetic", jax=form, terms=terms, linear=False, params={})


def get_atom_arrays(flds, a, xp=None):
    """component array of a field tuple for the atom a = (_, f, kind, idx)"""
    fld = flds[a[1]]
    arr = fld.value if a[2] == "val" else (fld.grad if a[2] == "grad" else fld.div)
    return arr[a[3]] if a[3] else arr


def jax_form_from_terms(terms, nf):
    import jax.numpy as jnp

    def form(*args):
        w = args[-1]
        us, vs = args[:nf], args[nf:2 * nf]

        def atom(a):
            if a[0] == "u":
                return get_atom_arrays(us, a)
            if a[0] == "x":
                return w.x[a[1]]
            return w[a[1]]
        tot = 0.
        for coef, ta in terms:
            tot = tot + ev(coef, atom, jnp) * get_atom_arrays(vs, ta)
        return tot
    return form


def twin_linear(terms, nf):
    """NumPy LinearForm of the integrand at the linearisation point w.prev0, w.prev1, ..."""
    from skfem import LinearForm

    def form(*args):
        w = args[-1]
        vs = args[:nf]
        prev = [w[f"prev{f}"] for f in range(nf)]

        def atom(a):
            if a[0] == "u":
                return np.asarray(get_atom_arrays(prev, a))
            if a[0] == "x":
                return w.x[a[1]]
            return w[a[1]]
        tot = 0.
        for coef, ta in terms:
            tot = tot + ev(coef, atom, np) * np.asarray(get_atom_arrays(vs, ta))
        return tot + 0. * w.x[0]
    return LinearForm(form)


def twin_bilinear(terms, nf):
    """hand-linearised BilinearForm: sum over atoms of d(coef)/d(atom)(prev) * trial atom * test atom;
    the derivative is computed symbolically here"""
    from skfem import BilinearForm
    dterms = []
    for coef, ta in terms:
        for a in sorted(atoms_of(coef, set())):
            d = diff(coef, a)
            if d is not None:
                dterms.append((d, a, ta))

    def form(*args):
        w = args[-1]
        us, vs = args[:nf], args[nf:2 * nf]
        prev = [w[f"prev{f}"] for f in range(nf)]

        def atom(a):
            if a[0] == "u":
                return np.asarray(get_atom_arrays(prev, a))
            if a[0] == "x":
                return w.x[a[1]]
            return w[a[1]]
        tot = 0. * w.x[0]
        for d, a, ta in dterms:
            tot = tot + ev(d, atom, np) * np.asarray(get_atom_arrays(us, a)) * np.asarray(get_atom_arrays(vs, ta))
        return tot
    return BilinearForm(form)


def prev_kwargs(basis, x):
    p = basis.interpolate(x)
    if not isinstance(p, tuple):
        p = (p,)
    return {f"prev{f}": fld for f, fld in enumerate(p)}


# ---- element choice ----------------------------------------------------------------

def choose_element(rng, kind, quick):
    """(element, name, category) with category in scalar / vector / composite"""
    from skfem import element as E
    from skfem.element import ElementVector, ElementDG
    sc = {"line": ["ElementLineP1", "ElementLineP2", "ElementLineMini"],
          "tri": ["ElementTriP1", "ElementTriP2", "ElementTriMini", "ElementTriCR", "ElementTriP0"],
          "quad": ["ElementQuad1", "ElementQuad2", "ElementQuadS2", "ElementQuad0"],
          "tet": ["ElementTetP1", "ElementTetP2", "ElementTetMini", "ElementTetCR"],
          "hex": ["ElementHex1"]}[kind]
    low = {"line": "ElementLineP1", "tri": "ElementTriP1", "quad": "ElementQuad1", "tet": "ElementTetP1",
           "hex": "ElementHex1"}[kind]
    second = sc[1] if len(sc) > 1 else low
    r = rng.random()
    if kind in ("tri", "tet") and r > 0.93:
        rt, p0 = {"tri": ("ElementTriRT1", "ElementTriP0"), "tet": ("ElementTetRT1", "ElementTetP0")}[kind]
        return getattr(E, rt)() * getattr(E, p0)(), f"{rt}*{p0}", "composite-hdiv"
    if kind == "line" or r < 0.4:
        nm = rng.choice(sc)
        if nm.endswith("P0") or nm.endswith("Quad0"):
            nm = low
        e = getattr(E, nm)()
        if rng.random() < 0.15:
            return ElementDG(e), f"ElementDG({nm})", "scalar"
        return e, nm, "scalar"
    if r < 0.7:
        nm = rng.choice([low, low, second]) if kind != "tet" else low
        return ElementVector(getattr(E, nm)()), f"ElementVector({nm})", "vector"
    if r < 0.85:
        nm = low if (kind == "tet" or quick) else rng.choice([low, second])
        return (ElementVector(getattr(E, nm)()) * getattr(E, low)(),
                f"ElementVector({nm})*{low}", "composite-vs")
    nm = rng.choice(sc[:2])
    return getattr(E, nm)() * getattr(E, low)(), f"{nm}*{low}", "composite-ss"


def templates_for(cat, dim):
    if cat == "scalar":
        return [tmpl_scalar_quasilinear, tmpl_minimal_surface, tmpl_poisson, tmpl_field_arith, "random", "hessian"]
    if cat == "vector":
        return [tmpl_svk, tmpl_det, tmpl_vector_products, tmpl_elasticity, "random"]
    if cat == "composite-vs":
        return [tmpl_navier_stokes, tmpl_stokes, "random"]
    if cat == "composite-hdiv":
        return [tmpl_mixed, tmpl_mixed_linear, "random"]
    return [tmpl_two_scalars, "random"]


def dense(M):
    return np.asarray(M.toarray() if hasattr(M, "toarray") else M)


def nl_case(ctx, it, quick):
    """one (mesh, element, integrand, linearisation point) case of the search"""
    from skfem import Basis
    from skfem.autodiff import NonlinearForm
    import scipy.sparse as sp
    rng = ctx.rng
    kinds = ["line", "tri", "quad", "tet"] + (["hex"] if rng.random() < 0.08 else [])
    kind = kinds[it % 4] if it < 8 else rng.choice(kinds)
    m, info = meshes.gen_first_order(rng, kind, size=None)
    dim = m.p.shape[0]
    e, ename, cat = choose_element(rng, kind, quick)
    if dim == 1 and cat != "scalar":
        cat = "scalar"
    intorder = rng.choice([None, None, 3, 4])
    facet = cat == "scalar" and dim > 1 and rng.random() < 0.12
    if facet:
        from skfem import FacetBasis
        basis = FacetBasis(m, e) if intorder is None else FacetBasis(m, e, intorder=intorder)
        ctx.count("nl:facet-basis")
    else:
        basis = Basis(m, e) if intorder is None else Basis(m, e, intorder=intorder)
    struct = field_struct(basis)
    nf = len(struct)
    tm = "random" if rng.random() < 0.25 else rng.choice(templates_for(cat, dim))
    hessian = False
    if tm == "random":
        T = tmpl_random(rng, struct, dim)
        T["jax"] = jax_form_from_terms(T["terms"], nf)
    elif tm == "hessian":
        hessian = True
        T = tmpl_hessian(rng, dim)
    else:
        T = tm(dim)
        if rng.random() < 0.3 and not T["linear"] and sum(size_of(c) for c, _ in T["terms"]) < 250 and basis.Nbfun <= 9:
            # the same integrand through the atom-level JAX evaluator (grammar path)
            T = dict(T, jax=jax_form_from_terms(T["terms"], nf), name=T["name"] + "[atoms]")
    scale_x = rng.choice([0.0, 0.3, 0.3, 1.0]) if it > 2 else 0.5
    x = np.array([rng.gauss(0, 1) for _ in range(basis.N)]) * scale_x
    descr = {"part": "nonlinear-form", "mesh": info, "element": ename, "integrand": T["name"],
             "terms": [(show(c), list(t)) for c, t in T["terms"]][:6], "hessian": hessian,
             "intorder": intorder, "x_scale": scale_x, "facet_basis": facet}
    replay = {"mesh": meshes.mesh_descr(m), "element": ename, "integrand": T["name"], "hessian": hessian,
              "terms": [(show(c), list(t)) for c, t in T["terms"]], "params": T["params"],
              "intorder": intorder, "x": x.tolist(), "facet_basis": facet}
    sig = {"integrand": T["name"].split("[")[0], "element-category": cat, "mesh-kind": kind}
    ctx.case(descr, nontrivial=True, sample=descr if it in (1, 6) else None)
    ctx.last_descr = {"mesh": kind, "nt": int(m.t.shape[1]), "element": ename, "integrand": T["name"], "N": int(basis.N)}
    ctx.count("nl:mesh=" + kind)
    ctx.count("nl:element=" + cat)
    ctx.count("nl:integrand=" + T["name"].split("[")[0])
    form = NonlinearForm(T["jax"], hessian=True) if hessian else NonlinearForm(T["jax"])
    params = dict(T["params"])

    def assemble(xx):
        return form.assemble(basis, x=xx, **params)
    try:
        J, r = assemble(x)
    except Exception as ex:
        ctx.violation("NonlinearForm.assemble raised " + exc_kind(ex), dict(replay, err=repr(ex)),
                      dict(sig, what="nl-raise"))
        return
    N = basis.N
    # ---- shape / dtype
    if not (sp.issparse(J) and J.shape == (N, N) and isinstance(r, np.ndarray) and r.shape == (N,)
            and J.dtype == np.float64 and r.dtype == np.float64):
        ctx.violation("NonlinearForm.assemble: wrong container / shape / dtype",
                      dict(replay, J_shape=list(getattr(J, "shape", [])), r_shape=list(getattr(r, "shape", [])),
                           J_dtype=str(getattr(J, "dtype", None)), r_dtype=str(getattr(r, "dtype", None))),
                      dict(sig, what="nl-shape"))
        return
    Jd = dense(J)
    if not (np.isfinite(Jd).all() and np.isfinite(r).all()):
        ctx.count("nl:non-finite-skipped")
        return
    # ---- twins (NumPy, independent of JAX)
    pk = prev_kwargs(basis, x)
    lin = twin_linear(T["lin_terms"] if hessian else T["terms"], nf)
    bil = twin_bilinear(T["lin_terms"] if hessian else T["terms"], nf)
    b = lin.assemble(basis, **pk, **params)
    A = dense(bil.assemble(basis, **pk, **params))
    sc_r = max(1.0, float(np.max(np.abs(b))))
    sc_J = max(1.0, float(np.max(np.abs(A))))
    if np.max(np.abs(r + b)) > 1e-10 * sc_r:
        ctx.violation("the vector of NonlinearForm.assemble is not minus the linear form of the integrand at "
                      "the linearisation point", dict(replay, max_diff=float(np.max(np.abs(r + b))), scale=sc_r),
                      dict(sig, what="nl-residual"))
    dJ = np.abs(Jd - A)
    if dJ.max() > 1e-9 * sc_J:
        i0 = np.unravel_index(np.argmax(dJ), dJ.shape)
        ctx.violation("the matrix of NonlinearForm.assemble differs from the hand-linearised bilinear form",
                      dict(replay, entry=[int(i0[0]), int(i0[1])], autodiff=float(Jd[i0]), hand=float(A[i0]),
                           transposed_matches=bool(np.max(np.abs(Jd.T - A)) <= 1e-9 * sc_J), scale=sc_J),
                      dict(sig, what="nl-jacobian-vs-hand"))
    # ---- finite differences of the ASSEMBLED residual (the real thing), random + unit directions
    eps = 1e-6
    dirs = [("random", np.array([rng.gauss(0, 1) for _ in range(N)]))]
    ncols = ctx.scale(1, 3)
    for c in rng.sample(range(N), min(N, ncols)):
        ec = np.zeros(N)
        ec[c] = 1.0
        dirs.append((f"unit{c}", ec))
    for dname, e_ in dirs:
        try:
            _, rp = assemble(x + eps * e_)
            _, rm = assemble(x - eps * e_)
        except Exception as ex:
            ctx.violation("NonlinearForm.assemble raised at a perturbed point " + exc_kind(ex),
                          dict(replay, err=repr(ex)), dict(sig, what="nl-raise"))
            break
        fd = -(rp - rm) / (2 * eps)          # r = -F  =>  dF/dx e = -(dr/dx) e
        Je = Jd @ e_
        sc = max(1.0, float(np.max(np.abs(Je))), float(np.max(np.abs(r))))
        if np.max(np.abs(fd - Je)) > 2e-5 * sc:
            # is the difference quotient itself trustworthy here?  (integrands like exp(0.2 * grad^2) on tiny cells
            # are so stiff that a step of 1e-6 leaves the region of validity: two step sizes then disagree)
            try:
                _, rp2 = assemble(x + eps / 16 * e_)
                _, rm2 = assemble(x - eps / 16 * e_)
                fd2 = -(rp2 - rm2) / (2 * eps / 16)
                if (not np.all(np.isfinite(fd2))) or np.max(np.abs(fd2 - fd)) > 1e-3 * max(1.0, float(np.max(np.abs(fd2)))):
                    ctx.count("nl:finite-differences-unreliable(skipped)")
                    continue
            except Exception:
                pass
            k0 = int(np.argmax(np.abs(fd - Je)))
            ctx.violation("the matrix of NonlinearForm.assemble is not the derivative of the residual "
                          "(central finite differences of the assembled vector)",
                          dict(replay, direction=dname, e=e_.tolist(), row=k0, J_e=float(Je[k0]), fd=float(fd[k0]),
                               scale=sc), dict(sig, what="nl-jacobian-vs-fd"))
            break
        ctx.count("nl:fd-directions")
    # ---- entrywise finite differences, all columns, through the (now validated) NumPy residual
    if N <= ctx.scale(40, 120):
        Jfd = np.zeros((N, N))
        for c in range(N):
            ec = np.zeros(N)
            ec[c] = eps
            bp = lin.assemble(basis, **prev_kwargs(basis, x + ec), **params)
            bm = lin.assemble(basis, **prev_kwargs(basis, x - ec), **params)
            Jfd[:, c] = (bp - bm) / (2 * eps)
        sc = max(sc_J, float(np.max(np.abs(b))))
        unreliable = False
        if np.max(np.abs(Jfd - Jd)) > 2e-5 * sc:
            i0 = np.unravel_index(np.argmax(np.abs(Jfd - Jd)), Jd.shape)
            ec = np.zeros(N)
            ec[int(i0[1])] = eps / 16
            bp = lin.assemble(basis, **prev_kwargs(basis, x + ec), **params)
            bm = lin.assemble(basis, **prev_kwargs(basis, x - ec), **params)
            col2 = (bp - bm) / (2 * eps / 16)
            unreliable = (not np.all(np.isfinite(col2))) or \
                np.max(np.abs(col2 - Jfd[:, int(i0[1])])) > 1e-3 * max(1.0, float(np.max(np.abs(col2))))
            if unreliable:
                ctx.count("nl:finite-differences-unreliable(skipped)")
        if np.max(np.abs(Jfd - Jd)) > 2e-5 * sc and not unreliable:
            i0 = np.unravel_index(np.argmax(np.abs(Jfd - Jd)), Jd.shape)
            ctx.violation("an entry of the autodiff matrix differs from the central difference of the residual",
                          dict(replay, entry=[int(i0[0]), int(i0[1])], autodiff=float(Jd[i0]), fd=float(Jfd[i0]),
                               scale=sc), dict(sig, what="nl-jacobian-entry-vs-fd"))
        ctx.count("nl:entrywise-fd")
    # ---- integrands linear (affine) in the unknown: ordinary assembly, independent of the point
    if T.get("linear"):
        zero = {k: v for k, v in prev_kwargs(basis, np.zeros(N)).items()}
        A0 = dense(bil.assemble(basis, **zero, **params))       # the bilinear part (prev does not enter)
        b0 = lin.assemble(basis, **zero, **params)             # l(v): integrand at u = 0
        if np.max(np.abs(Jd - A0)) > 1e-12 * sc_J:
            ctx.violation("integrand linear in the unknown: the autodiff matrix is not the BilinearForm matrix",
                          dict(replay, max_diff=float(np.max(np.abs(Jd - A0)))), dict(sig, what="nl-linear-matrix"))
        if np.max(np.abs(r + (A0 @ x + b0))) > 1e-10 * max(sc_r, float(np.max(np.abs(A0 @ x)))):
            ctx.violation("integrand linear in the unknown: the vector is not -(A x - b)",
                          dict(replay, max_diff=float(np.max(np.abs(r + (A0 @ x + b0))))),
                          dict(sig, what="nl-linear-vector"))
        ctx.count("nl:linear-reduces")
    # ---- hessian mode: the vector is minus the gradient of the energy (Functional), FD
    if hessian:
        from skfem import Functional

        def energy(xx):
            pk2 = prev_kwargs(basis, xx)

            def fun(w):
                def atom(a):
                    if a[0] == "u":
                        return np.asarray(get_atom_arrays([w["prev0"]], a))
                    if a[0] == "x":
                        return w.x[a[1]]
                    return w[a[1]]
                return ev(T["energy"], atom, np) + 0. * w.x[0]
            return Functional(fun).assemble(basis, **pk2)
        e_ = np.array([rng.gauss(0, 1) for _ in range(N)])
        dE = (energy(x + eps * e_) - energy(x - eps * e_)) / (2 * eps)
        if abs(dE + r @ e_) > 2e-5 * max(1.0, abs(dE), float(np.max(np.abs(r)))):
            ctx.violation("hessian mode: the vector is not minus the gradient of the energy",
                          dict(replay, dE=float(dE), minus_r_e=float(-(r @ e_))), dict(sig, what="nl-hessian-gradient"))
        if np.max(np.abs(Jd - Jd.T)) > 1e-9 * sc_J:
            ctx.violation("hessian mode: the matrix is not symmetric", replay, dict(sig, what="nl-hessian-symmetry"))
        ctx.count("nl:hessian-mode")


def tmpl_hessian(rng, dim):
    """energy density W(u, grad u, x): NonlinearForm(hessian=True)"""
    import jax.numpy as jnp
    from skfem.autodiff.helpers import grad, dot
    which = rng.randrange(2)
    u = U(0, "val")
    gu = gvec(0, dim)
    g2 = e_dot(gu, gu)
    if which == 0:
        def form(u, w):
            return .5 * dot(grad(u), grad(u)) + .25 * u * u * u * u + jnp.sqrt(1. + dot(grad(u), grad(u))) \
                - jnp.sin(w.x[0]) * u
        W = add(add(mul(C_(.5), g2), mul(C_(.25), ("pow", u, 4))),
                sub(("sqrt", add(C_(1), g2)), mul(("sin", ("x", 0)), u)))
        name = "energy: dirichlet+quartic+area"
    else:
        def form(u, w):
            return .25 * (1. + dot(grad(u), grad(u))) ** 2 + jnp.cos(u.value) * w.x[0]
        W = add(mul(C_(.25), ("pow", add(C_(1), g2), 2)), mul(("cos", u), ("x", 0)))
        name = "energy: p-laplace(4)+cos"
    # first variation: sum over atoms dW/da * (test atom)
    lin_terms = []
    for a in sorted(atoms_of(W, set())):
        d = diff(W, a)
        if d is not None:
            lin_terms.append((d, as_test(a)))
    return dict(name=name, jax=form, terms=[(W, ("energy",))], lin_terms=lin_terms, energy=W, linear=False,
                params={})


# ---- correspondence nl.assemble ------------------------------------------------------

def nl_correspondence(ctx):
    """the model (formal derivative of a polynomial integrand, exact rationals of the
    implementation's own basis arrays) against the raw output of `NonlinearForm._assemble`"""
    from skfem import Basis, MeshTri1, MeshLine1, MeshQuad1, MeshTet1
    from skfem import element as E
    from skfem.element import ElementVector
    from skfem.autodiff import NonlinearForm
    if not ctx.driver.available():
        return
    rng = ctx.rng
    ncases = ctx.scale(5, 20)
    for it in range(ncases):
        if ctx.time_left(0.55) < 0:
            break
        kind = ["tri", "line", "quad", "tet", "tri"][it % 5]
        m, info = meshes.gen_first_order(rng, kind)
        # a few cells only (exact rational arithmetic on doubles)
        nt = m.t.shape[1]
        keep = sorted(rng.sample(range(nt), min(nt, rng.randint(1, 3))))
        t = m.t[:, keep]
        used = np.unique(t)
        remap = -np.ones(m.p.shape[1], dtype=np.int64)
        remap[used] = np.arange(len(used))
        m = type(m)(m.p[:, used], remap[t].astype(np.int32))
        dim = m.p.shape[0]
        low = {"line": "ElementLineP1", "tri": "ElementTriP1", "quad": "ElementQuad1", "tet": "ElementTetP1"}[kind]
        choice = rng.randrange(3) if dim > 1 else 0
        if choice == 0:
            e, ename = getattr(E, low)(), low
        elif choice == 1:
            e, ename = ElementVector(getattr(E, low)()), f"ElementVector({low})"
        else:
            e, ename = ElementVector(getattr(E, low)()) * getattr(E, low)(), f"ElementVector({low})*{low}"
        basis = Basis(m, e, intorder=rng.choice([1, 2]))
        nf = len(basis.basis[0])
        comps = fields.tuple_components(basis.basis[0], maxorder=1)
        ncomp = len(comps)

        def atom_of_comp(c, role):
            fno, (n, idx) = comps[c][1]
            return (role, fno, "val" if n == 0 else "grad", tuple(idx))
        nterms = rng.randint(1, 3)
        terms = []
        for _ in range(nterms):
            deg = rng.choice([1, 2, 2, 3])
            terms.append({"coef": rng.randint(-6, 6) / 2 or 1.0, "ucs": [rng.randrange(ncomp) for _ in range(deg)],
                          "vc": rng.randrange(ncomp), "wc": rng.randrange(dim + 1)})
        ir_terms = []
        for tme in terms:
            coef = C_(tme["coef"])
            for c in tme["ucs"]:
                coef = ("*", coef, atom_of_comp(c, "u"))
            if tme["wc"] > 0:
                coef = ("*", coef, ("x", tme["wc"] - 1))
            ir_terms.append((coef, atom_of_comp(tme["vc"], "v")))
        form = NonlinearForm(jax_form_from_terms(ir_terms, nf))
        x = np.array([rng.randint(-8, 8) / 4 for _ in range(basis.N)])
        try:
            mat, vec = form._assemble(basis, x=x)
        except Exception as ex:
            ctx.violation("NonlinearForm._assemble raised " + exc_kind(ex),
                          {"mesh": meshes.mesh_descr(m), "element": ename, "terms": terms, "x": x.tolist(),
                           "err": repr(ex)}, {"what": "nl-raise"})
            continue
        Nb, ntc, nq = basis.Nbfun, basis.nelems, basis.dx.shape[1]
        bj = [[[[qstr(float(fields.get_tuple_comp(basis.basis[j], comps[c][1])[k, q])) for c in range(ncomp)]
                for q in range(nq)] for k in range(ntc)] for j in range(Nb)]
        gx = basis.global_coordinates().value
        wj = [[["1/1"] + [qstr(float(gx[i, k, q])) for i in range(dim)] for q in range(nq)] for k in range(ntc)]
        req = {"op": "nl.assemble", "Nb": Nb, "nt": ntc, "nq": nq, "dofs": basis.element_dofs.tolist(),
               "basis": bj, "w": wj, "dx": [[qstr(float(v)) for v in row] for row in basis.dx.tolist()],
               "x": [qstr(float(v)) for v in x], "terms": [dict(tme, coef=qstr(tme["coef"])) for tme in terms]}
        out = ctx.driver.run([req])[0]
        inp = {"mesh": meshes.mesh_descr(m), "element": ename, "terms": terms, "x": x.tolist()}
        ctx.case({"part": "nl.assemble", "mesh": info, "element": ename, "terms": terms}, nontrivial=True)
        ctx.count("nl.assemble:" + kind)
        if not isinstance(out, dict) or "rows" not in out:
            ctx.corr("nl.assemble", False, inp, out, None)
            continue
        N = basis.N
        Mm = np.zeros((N, N))
        for rr, cc, vv in zip(out["rows"], out["cols"], unq(out["data"])):
            Mm[rr, cc] += float(vv)
        vm = np.zeros(N)
        for rr, vv in zip(out["rows1"], unq(out["data1"])):
            vm[rr] += float(vv)
        (rows, cols), data, shape, _ = mat
        Mi = np.zeros((N, N))
        np.add.at(Mi, (np.asarray(rows), np.asarray(cols)), np.asarray(data))
        vi = np.zeros(N)
        np.add.at(vi, np.asarray(vec[0][0]), np.asarray(vec[1]))
        sc = max(1.0, float(np.max(np.abs(Mm))))
        ok = tuple(shape) == (N, N) and tuple(vec[2]) == (N,) and np.max(np.abs(Mm - Mi)) <= 1e-11 * sc \
            and np.max(np.abs(vm - vi)) <= 1e-11 * max(1.0, float(np.max(np.abs(vm))))
        ctx.corr("nl.assemble", ok, inp, {"matrix": Mm.tolist(), "vector": vm.tolist()},
                 {"matrix": Mi.tolist(), "vector": vi.tolist()})
        # the flat COO layout of the theorem C20_jacobian_bookkeeping (not demanded by the property:
        # recorded, not enforced)
        same_layout = (list(map(int, rows)) == out["rows"] and list(map(int, cols)) == out["cols"]
                       and list(map(int, vec[0][0])) == out["rows1"])
        ctx.count("nl.assemble:flat-layout-" + ("as-modelled" if same_layout else "different"))


def nl_api_checks(ctx):
    """x=None means the zero vector; elemental() carries the same data as assemble()"""
    from skfem import Basis, MeshTri
    from skfem import ElementTriP1
    from skfem.autodiff import NonlinearForm
    T = tmpl_scalar_quasilinear(2)
    basis = Basis(MeshTri().refined(1), ElementTriP1())
    form = NonlinearForm(T["jax"])
    try:
        J0, r0 = form.assemble(basis, **T["params"])
        J1, r1 = form.assemble(basis, x=basis.zeros(), **T["params"])
        if np.max(np.abs(dense(J0) - dense(J1))) > 0 or np.max(np.abs(r0 - r1)) > 0:
            ctx.violation("assemble(basis) without x differs from x = 0", {"integrand": T["name"]},
                          {"what": "nl-default-point"})
        x = np.linspace(-1, 1, basis.N)
        Jc, rc = form.elemental(basis, x=x, **T["params"])
        J, r = form.assemble(basis, x=x, **T["params"])
        if np.max(np.abs(dense(Jc.tocsr()) - dense(J))) > 1e-14 or np.max(np.abs(rc.todefault() - r)) > 1e-14:
            ctx.violation("elemental() and assemble() disagree", {"integrand": T["name"], "x": x.tolist()},
                          {"what": "nl-elemental"})
        ctx.count("nl:api-checks")
    except Exception as ex:
        ctx.violation("NonlinearForm api raised " + exc_kind(ex), {"err": repr(ex)}, {"what": "nl-raise"})


def nl_reuse_checks(ctx):
    """ONE NonlinearForm object assembled on a sequence of bases of equal kind and size but other geometry
    (a mesh and its translated / scaled copy, the left and the right boundary): every result equals the one of
    a fresh form object (which the cases below compare with the hand-linearised forms)"""
    from skfem import Basis, FacetBasis, MeshTri, MeshQuad, ElementTriP1, ElementQuad1
    from skfem.autodiff import NonlinearForm
    import jax.numpy as jnp
    from skfem.autodiff.helpers import grad, dot

    def cell_form(u, v, w):
        return (1. + u * u) * dot(grad(u), grad(v)) + jnp.sin(w.x[0] + 2. * w.x[1]) * u * v + w.h * v

    def facet_form(u, v, w):
        return (w.n[0] + 2. * w.n[1]) * u * u * v + w.x[1] * w.x[0] * v + w.h * u * v
    for mk, el in ((MeshTri, ElementTriP1), (MeshQuad, ElementQuad1)):
        m = mk().refined(1).with_defaults()
        seq_cell = [Basis(m, el()), Basis(m.translated((1.5, 0.25)), el()), Basis(m.scaled((0.5, 2.0)), el()),
                    Basis(m, el())]
        seq_facet = [FacetBasis(m, el(), facets=nm) for nm in ("left", "right", "top", "left")]
        for label, integrand, seq in (("cell", cell_form, seq_cell), ("facet", facet_form, seq_facet)):
            shared = NonlinearForm(integrand)
            for step, basis in enumerate(seq):
                x = np.linspace(0.25, 1.25, basis.N)
                try:
                    J, r = shared.assemble(basis, x=x)
                    Jf, rf = NonlinearForm(integrand).assemble(basis, x=x)
                except Exception as ex:
                    ctx.violation("NonlinearForm reused on a second basis raised " + exc_kind(ex),
                                  {"mesh": mk.__name__, "kind": label, "step": step, "err": repr(ex)},
                                  {"what": "nl-raise"})
                    break
                ctx.case({"nl-reuse": label, "mesh": mk.__name__, "step": step}, nontrivial=step > 0)
                ctx.count("nl:form-object-reused")
                dJ = float(np.abs(dense(J) - dense(Jf)).max())
                dr = float(np.abs(r - rf).max())
                if dJ > 1e-13 or dr > 1e-13:
                    ctx.violation("a NonlinearForm object reused on another basis of the same kind and size returns "
                                  "another Jacobian / residual than a fresh form object",
                                  {"mesh": mk.__name__ + "().refined(1).with_defaults()", "kind": label, "step": step,
                                   "sequence": ("mesh, translated((1.5,.25)), scaled((.5,2)), mesh" if label == "cell"
                                                else "left, right, top, left"),
                                   "jacobian_diff": dJ, "residual_diff": dr},
                                  {"what": "nl-form-reuse", "kind": label})
                    break


def nl_tiny_point_checks(ctx):
    """a linearisation point of tiny magnitude (other units) is a point like any other: for an integrand that is
    linear and homogeneous in the unknown the returned right-hand side is -A x, whatever the size of x"""
    from skfem import Basis, MeshTri, MeshLine, ElementTriP1, ElementLineP2, BilinearForm
    from skfem.autodiff import NonlinearForm
    from skfem.autodiff.helpers import grad, dot

    def integrand(u, v, w):
        return dot(grad(u), grad(v)) + (1. + w.x[0]) * u * v
    for m, E_ in ((MeshTri().refined(1), ElementTriP1), (MeshLine().refined(2), ElementLineP2)):
        basis = Basis(m, E_())
        A = BilinearForm(lambda u, v, w: sum(u.grad[i] * v.grad[i] for i in range(len(u.grad)))
                         + (1. + w.x[0]) * u * v).assemble(basis)
        pattern = np.linspace(0.5, 1.5, basis.N) * np.where(np.arange(basis.N) % 2, -1.0, 1.0)
        for expo in (0, -20, -30, -40, -60, 30):
            x = pattern * 2.0 ** expo
            J, r = NonlinearForm(integrand).assemble(basis, x=x)
            want = -(A @ x)
            ctx.case({"nl-tiny-point": E_.__name__, "expo": expo}, nontrivial=True)
            ctx.count("nl:point-of-tiny-magnitude")
            err = float(np.abs(r - want).max() / np.abs(want).max())
            errJ = float(np.abs(dense(J) - A.toarray()).max())
            if err > 1e-10 or errJ > 1e-12:
                ctx.violation("NonlinearForm at a linearisation point of magnitude 2^%d: the right-hand side of a linear "
                              "homogeneous integrand is not -A x" % expo,
                              {"element": E_.__name__, "magnitude": f"2^{expo}", "relative_error_rhs": err,
                               "error_matrix": errJ}, {"what": "nl-tiny-point"})
                break


def nl_operator_checks(ctx):
    """arithmetic of a bare JaxDiscreteField (the objects u, v, w['name'] an integrand receives): every
    operator x operand kinds (field, Python number, NumPy scalar, NumPy array, jax array; both sides)
    against the same operation on the value arrays"""
    import operator as op
    import jax.numpy as jnp
    from skfem.autodiff import JaxDiscreteField
    rng = ctx.rng
    n = 0
    for rep in range(3 if ctx.tier == "quick" else 20):
        shape = rng.choice([(2, 3), (1, 4), (3, 2, 2)])
        a = dyadic_array(rng, shape)
        b = dyadic_array(rng, shape)
        a = np.where(a == 0, 0.5, a)
        b = np.where(b == 0, -0.75, b)
        fa, fb = JaxDiscreteField(jnp.asarray(a)), JaxDiscreteField(jnp.asarray(b))
        c = rng.choice([2.0, -0.5, 3, 0.25])
        others = [("field", fb, b), ("float", float(c), float(c)), ("int", 2, 2), ("np.float64", np.float64(c), c),
                  ("jax array", jnp.asarray(b), b), ("np array", b, b)]
        for name, f in (("add", op.add), ("sub", op.sub), ("mul", op.mul), ("truediv", op.truediv)):
            for kind, o, oval in others:
                for side in ("left", "right"):
                    if kind == "field" and side == "right":
                        continue
                    try:
                        got = f(fa, o) if side == "left" else f(o, fa)
                    except (TypeError, ValueError):
                        # combination not supported by the class (no reflected method / NumPy coercion of
                        # the field object fails): raises, returns no value
                        ctx.count(f"nl:operator-unsupported:{name}:{kind}:{side}")
                        continue
                    if isinstance(got, JaxDiscreteField):
                        got = got.value
                    got = np.asarray(got)
                    if got.dtype == object:
                        # NumPy broadcast the field as an object scalar: not an arithmetic result
                        ctx.count(f"nl:operator-object-array:{name}:{kind}:{side}")
                        continue
                    want = f(a, oval) if side == "left" else f(oval, a)
                    n += 1
                    ctx.case({"operator": name, "kind": kind, "side": side, "rep": rep}, nontrivial=True)
                    if got.shape != np.shape(want) or not np.allclose(got, want, rtol=1e-13, atol=0):  # (XLA may divide by reciprocal)
                        ctx.violation(f"JaxDiscreteField: {'u' if side == 'left' else kind} {name} "
                                      f"{kind if side == 'left' else 'u'} differs from the operation on the values",
                                      {"operator": name, "operand": kind, "side": side, "u": a.tolist(),
                                       "other": np.asarray(oval).tolist(), "got": got.tolist(),
                                       "want": np.asarray(want).tolist()},
                                      {"what": "nl-field-operator", "operator": name, "side": side})
        for k in (2, 3):
            try:
                got = np.asarray(fa ** k)
                n += 1
                if not np.allclose(got, a ** k, rtol=1e-13, atol=0):
                    ctx.violation("JaxDiscreteField: u ** k differs from value ** k",
                                  {"u": a.tolist(), "k": k, "got": got.tolist()},
                                  {"what": "nl-field-operator", "operator": "pow", "side": "left"})
            except (TypeError, ValueError):
                ctx.count("nl:operator-unsupported:pow")
        idx = (0,) if len(shape) == 2 else (1, 0)
        if not np.array_equal(np.asarray(fa[idx]), a[idx]) or tuple(fa.shape) != a.shape:
            ctx.violation("JaxDiscreteField: indexing / shape differ from the value array",
                          {"u": a.tolist(), "index": list(idx)}, {"what": "nl-field-operator", "operator": "getitem"})
    ctx.count("nl:operator-checks", n)


# ===========================================================================

def run(ctx):
    ctx.rule = ("(H) helpers: every helper of skfem.helpers / skfem.autodiff.helpers x sizes 2, 3 x trailing shapes "
                "(), (n,), (nt,nq) incl. Fortran-ordered and strided views, random Gaussian entries, against "
                "numpy.linalg.det/inv, numpy.cross and explicit pointwise loops, and variant against variant; "
                "(N) NonlinearForm: meshes from skv.meshes (line/tri/quad/tet, occasionally hex; irregular, renumbered, "
                "locally re-ordered, with holes) x scalar / ElementVector / ElementComposite / ElementDG elements x "
                "integrand templates (quasilinear, minimal surface, St.Venant-Kirchhoff, det(F), Navier-Stokes, "
                "products, two-field coupling, affine: Poisson / elasticity / Stokes, hessian-mode energies) and a "
                "random grammar of smooth expressions (polynomials in u and grad u, exp, sin, cos, sqrt(1+a^2+b^2), "
                "x-dependent coefficients) x random linearisation points; distinct = (mesh descr, element, integrand, "
                "point scale); non-trivial = all")
    ctx.trusted += ["Lean kernel; axioms propext/Classical.choice/Quot.sound",
                    "translator gens/helpers.py (restricted-AST symbolic execution of both helper modules, re-run on "
                    "the live source every time; itself under test by the correspondence gen-selfcheck: generated "
                    "Lean terms evaluated by the driver vs the live Python functions, exact)",
                    "fallback of that translator: for a helper whose live source is outside its AST subset the Lean "
                    "term is kept textually from the last successful translation (listed under "
                    "translator_not_applicable / kept_helper_terms when it happens); the theorems then are about "
                    "that last translated formula, and its tie to the live code is ONLY the exact correspondence "
                    "gen-selfcheck[<helper>] on random dyadic rationals (3x the points of a translated helper; "
                    "1e-12 relative for inv, whose live result is a float quotient), not a reading of the source",
                    "NumPy / JAX broadcasting over trailing axes and einsum's ellipsis semantics (exercised by the "
                    "search on every trailing shape, not proved)",
                    "JAX contract: jax.linearize / jax.jvp return the value and the true directional derivative, "
                    "linear in the direction (explicit hypothesis IsJvpAt of the theorems; proved for the polynomial "
                    "grammar; validated for exp/sin/cos/sqrt/division by finite differences and by the symbolic "
                    "derivative computed in the harness)",
                    "model Model/Autodiff.lean hand-written; tied by the correspondence nl.assemble on the "
                    "implementation's own basis arrays"]
    ctx.assumptions += ["floating point is not modelled: exact-arithmetic theorems; tolerances 1e-12 (helpers), 1e-9 "
                        "relative (hand-linearised form), 2e-5 relative with step 1e-6 (central differences)",
                        "integrands act pointwise in (cell, quadrature point) and are differentiable at the "
                        "interpolated linearisation point",
                        "skfem.autodiff.helpers offers no inv / cross / curl / identity / inner: for these only the "
                        "NumPy variant exists and is checked"]
    # ---- 0. translator
    results, failures, kept, kept_info = {}, [], [], {}
    try:
        changed, results, failures = genhelpers.generate()
        kept = list(getattr(genhelpers.generate, "kept", []))
        kept_info = dict(getattr(genhelpers.generate, "kept_info", {}))
        ctx.notes["generated_files_changed"] = bool(changed)
        ctx.notes["generated_helper_terms"] = len(results)
        if kept:
            ctx.notes["kept_helper_terms"] = {n: {"translator": msg, "kept_from": kept_info.get(n, {}).get("source")}
                                              for n, msg in kept}
    except Exception as ex:
        ctx.broken.append({"kind": "translator", "what": "helper modules could not be translated", "err": repr(ex)})
    for name, msg in failures:
        # not translated and no definition to fall back on: the generated file lacks the term
        ctx.broken.append({"kind": "translator", "what": f"tie broken: {name}", "err": msg})
    for name, msg in kept:
        # not translated, Lean term kept from the last successful translation: green iff the exact
        # correspondence of exactly this helper ran and agrees (decided by core at finish())
        if name in kept_info:
            ctx.translator_failed(f"helper {name}: {msg}", msg, [f"gen-selfcheck[{name}]"])
        else:
            ctx.broken.append({"kind": "translator", "what": f"tie broken: {name}", "err": msg})
    # ---- 1. proof
    if not getattr(ctx, "no_lean", False):
        ctx.prove(["SkfemVerif.Props.C20"], ["SkfemVerif/Props/C20.lean"])
    log(f"[C20] proof layer done at {ctx.elapsed():.1f}s")
    # ---- 2. search and correspondence on the helpers
    try:
        helper_search(ctx)
    except Exception as ex:
        ctx.violation("helper search raised " + exc_kind(ex), {"err": repr(ex)}, {"what": "helper-raise"})
    COMPLEX_ROUND["on"] = False
    log(f"[C20] helper search done at {ctx.elapsed():.1f}s")
    if results or kept_info:
        helper_selfcheck(ctx, results, kept_info)
    log(f"[C20] gen-selfcheck done at {ctx.elapsed():.1f}s")
    # ---- 3. NonlinearForm
    nl_api_checks(ctx)
    try:
        nl_tiny_point_checks(ctx)
    except Exception as ex:
        ctx.violation("tiny linearisation point check raised " + exc_kind(ex), {"err": repr(ex)}, {"what": "nl-raise"})
    try:
        nl_reuse_checks(ctx)
    except Exception as ex:
        ctx.violation("NonlinearForm reuse check raised " + exc_kind(ex), {"err": repr(ex)}, {"what": "nl-raise"})
    try:
        nl_operator_checks(ctx)
    except Exception as ex:
        ctx.violation("JaxDiscreteField operator table raised " + exc_kind(ex), {"err": repr(ex)},
                      {"what": "nl-raise"})
    nl_correspondence(ctx)
    log(f"[C20] nl.assemble correspondence done at {ctx.elapsed():.1f}s")
    quick = ctx.tier == "quick"
    ncases = ctx.scale(44, 400)
    for it in range(ncases):
        if ctx.time_left(0.7 if quick else 0.5) < 0:
            break
        try:
            t_case = ctx.elapsed()
            nl_case(ctx, it, quick)
            if ctx.elapsed() - t_case > 4:
                log(f"[C20] slow case {it}: {ctx.elapsed() - t_case:.1f}s {ctx.last_descr}")
        except Exception as ex:
            import traceback
            log(traceback.format_exc())
            raise
    ctx.notes["nl_cases_run"] = ctx.dist.get("nl:fd-directions", 0)
    if ctx.tier == "thorough" and not getattr(ctx, "no_lean", False):
        ctx.leanchecker(["SkfemVerif.Props.C20"])
