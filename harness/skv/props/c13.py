"""C13  Adaptive refinement: conforming, domain-preserving for every marked set.

Layers (GUIDE.md):
  1. proof           lean/SkfemVerif/Props/C13.lean about lean/SkfemVerif/Model/RefineAdaptive.lean
  2. correspondence  refine.tri.* / refine.line / refine.tet.check driver ops vs the implementation
  3. search          exact geometric oracle (integer-scaled dyadic coordinates, no floats) on
                     `mesh.refined(index_array)` for all marked subsets of small meshes, random
                     subsets of larger ones and random histories of adaptive / uniform steps.
"""
from __future__ import annotations

import itertools
from fractions import Fraction

import numpy as np

from .. import meshes
from ..core import exc_kind, qlist, unq

KINDS = ["line", "tri", "tet", "tri2", "tet2"]
DIM = {"line": 1, "tri": 2, "tet": 3, "tri2": 2, "tet2": 3}


# ---------------------------------------------------------------------------
# exact geometry on integer-scaled coordinates

class Geo:
    """vertex coordinates of one or several meshes on a common integer grid"""

    def __init__(self, *ps):
        den = 1
        for p in ps:
            for x in np.asarray(p, dtype=np.float64).ravel().tolist():
                d = Fraction(x).denominator
                if d > den:
                    den = d          # denominators of floats are powers of two
        self.den = den
        self.dim = ps[0].shape[0]

    def pts(self, p):
        den = self.den
        out = []
        for col in np.asarray(p, dtype=np.float64).T.tolist():
            out.append(tuple(int(Fraction(x) * den) for x in col))
        return out


def sub(a, b):
    return tuple(x - y for x, y in zip(a, b))


def det(vs):
    """determinant of dim vectors of length dim (dim = 1, 2, 3)"""
    n = len(vs)
    if n == 1:
        return vs[0][0]
    if n == 2:
        return vs[0][0] * vs[1][1] - vs[0][1] * vs[1][0]
    a, b, c = vs
    return (a[0] * (b[1] * c[2] - b[2] * c[1]) - a[1] * (b[0] * c[2] - b[2] * c[0])
            + a[2] * (b[0] * c[1] - b[1] * c[0]))


def measure(S):
    """dim! times the signed measure of the simplex with vertex coordinates S"""
    return det([sub(v, S[0]) for v in S[1:]])


def bary(S, x, vol=None):
    """(unnormalised) barycentric coordinates of x: vol_i with sum = vol"""
    vol = measure(S) if vol is None else vol
    out = []
    for i in range(len(S)):
        T = list(S)
        T[i] = x
        out.append(measure(T))
    return out, vol


def in_closed(S, x, vol=None):
    b, vol = bary(S, x, vol)
    if vol > 0:
        return all(v >= 0 for v in b)
    return all(v <= 0 for v in b)


def cross3(a, b):
    return (a[1] * b[2] - a[2] * b[1], a[2] * b[0] - a[0] * b[2], a[0] * b[1] - a[1] * b[0])


def dot(a, b):
    return sum(x * y for x, y in zip(a, b))


def interiors_disjoint(A, B):
    """exact separating-axis test for two non-degenerate simplices (vertex coordinate lists)"""
    dim = len(A) - 1
    if dim == 1:
        a0, a1 = sorted(v[0] for v in A)
        b0, b1 = sorted(v[0] for v in B)
        return a1 <= b0 or b1 <= a0
    axes = []
    if dim == 2:
        for S in (A, B):
            for i in range(3):
                e = sub(S[(i + 1) % 3], S[i])
                axes.append((-e[1], e[0]))
    else:
        for S in (A, B):
            for f in itertools.combinations(range(4), 3):
                axes.append(cross3(sub(S[f[1]], S[f[0]]), sub(S[f[2]], S[f[0]])))
        ea = [sub(A[j], A[i]) for i, j in itertools.combinations(range(4), 2)]
        eb = [sub(B[j], B[i]) for i, j in itertools.combinations(range(4), 2)]
        for u in ea:
            for v in eb:
                n = cross3(u, v)
                if any(n):
                    axes.append(n)
    for n in axes:
        pa = [dot(n, v) for v in A]
        pb = [dot(n, v) for v in B]
        if max(pa) <= min(pb) or max(pb) <= min(pa):
            return True
    return False


def facet_keys(cell):
    k = len(cell)
    if k == 2:
        return [(cell[0],), (cell[1],)]
    return [tuple(sorted(c)) for c in itertools.combinations(cell, k - 1)]


# ---------------------------------------------------------------------------
# mesh access

def nverts_of(m):
    return m.elem.refdom.nnodes


def vertex_cells(m):
    nn = nverts_of(m)
    return [tuple(int(v) for v in c) for c in m.t[:nn].T]


def mesh_record(m):
    d = {"cls": type(m).__name__, "p": m.p.tolist(), "t": m.t.tolist()}
    if m._subdomains is not None:
        d["subdomains"] = {k: np.asarray(v).tolist() for k, v in m._subdomains.items()}
    if m._boundaries is not None:
        d["boundaries"] = {k: np.asarray(v).tolist() for k, v in m._boundaries.items()}
    return d


def validity(P, cells, nv_used_upto=None):
    """failures of the stand-alone validity clauses: indices, duplicates, degenerate cells,
    facet incidence; returns (list of (what, detail)), facet->cells dict"""
    bad = []
    n = len(P)
    for k, c in enumerate(cells):
        if any(v < 0 or v >= n for v in c):
            bad.append(("cell refers to a vertex index out of range", {"cell": k, "verts": c}))
            return bad, {}
        if len(set(c)) != len(c):
            bad.append(("cell repeats a vertex", {"cell": k, "verts": c}))
    if len(set(P)) != n:
        seen = {}
        for j, x in enumerate(P):
            if x in seen:
                bad.append(("duplicate vertices", {"i": seen[x], "j": j}))
                break
            seen[x] = j
    used = set(v for c in cells for v in c)
    if len(used) != (nv_used_upto if nv_used_upto is not None else n):
        bad.append(("vertex not used by any cell", {"unused": sorted(set(range(nv_used_upto or n)) - used)[:5]}))
    for k, c in enumerate(cells):
        if len(set(c)) == len(c) and measure([P[v] for v in c]) == 0:
            bad.append(("degenerate cell (zero measure)", {"cell": k, "verts": c}))
            break
    f2c = {}
    for k, c in enumerate(cells):
        for f in facet_keys(c):
            f2c.setdefault(f, []).append(k)
    for f, ks in f2c.items():
        if len(ks) > 2:
            bad.append(("facet shared by more than two cells", {"facet": f, "cells": ks}))
            break
    if len(set(tuple(sorted(c)) for c in cells)) != len(cells):
        bad.append(("the same cell is listed twice", None))
    return bad, f2c


def hanging_nodes(P, cells, pf):
    """a vertex lying in a closed cell without being one of its vertices (exact);
    pf: float coordinates (dim, n) for the bounding-box prefilter (exact on dyadic data)"""
    pf = np.asarray(pf)
    n = len(P)
    for k, c in enumerate(cells):
        cc = list(c)
        lo = pf[:, cc].min(axis=1)[:, None]
        hi = pf[:, cc].max(axis=1)[:, None]
        cand = np.nonzero(((pf >= lo) & (pf <= hi)).all(axis=0))[0]
        S = [P[v] for v in c]
        vol = measure(S)
        if vol == 0:
            continue
        for v in cand.tolist():
            if v in c or v >= n:
                continue
            if in_closed(S, P[v], vol):
                return {"cell": k, "verts": c, "vertex": v}
    return None


def opposite_sides(P, cells, f2c):
    """the two cells of an interior facet lie on strictly opposite sides of it"""
    dim = len(cells[0]) - 1
    for f, ks in f2c.items():
        if len(ks) != 2:
            continue
        s = []
        for k in ks:
            o = [v for v in cells[k] if v not in f]
            if len(o) != 1:
                break
            if dim == 1:
                s.append(P[o[0]][0] - P[f[0]][0])
            else:
                s.append(measure([P[v] for v in f] + [P[o[0]]]))
        if len(s) == 2 and not (s[0] * s[1] < 0):
            return {"facet": f, "cells": ks}
    return None


def find_parents(Pold, cold, pold_f, Pnew, cnew, pnew_f):
    """for every new cell the list of old cells containing all its vertices (closed, exact)"""
    pold_f = np.asarray(pold_f)
    pnew_f = np.asarray(pnew_f)
    olo = np.array([pold_f[:, list(c)].min(axis=1) for c in cold])   # nt_old x dim
    ohi = np.array([pold_f[:, list(c)].max(axis=1) for c in cold])
    vols = [measure([Pold[v] for v in c]) for c in cold]
    out = []
    cache = {}
    for c in cnew:
        lo = pnew_f[:, list(c)].min(axis=1)
        hi = pnew_f[:, list(c)].max(axis=1)
        cand = np.nonzero(((olo <= lo) & (ohi >= hi)).all(axis=1))[0]
        par = []
        for K in cand.tolist():
            S = [Pold[v] for v in cold[K]]
            ok = True
            for v in c:
                key = (K, v)
                r = cache.get(key)
                if r is None:
                    r = in_closed(S, Pnew[v], vols[K])
                    cache[key] = r
                if not r:
                    ok = False
                    break
            if ok:
                par.append(K)
        out.append(par)
    return out


def facet_measure_ratio(Fnew, Fold):
    """Fnew, Fold: coordinate lists of two (dim-1)-simplices, Fnew inside the affine hull of Fold;
    returns |Fnew| / |Fold| as a Fraction (None if not in the same hull)"""
    k = len(Fold)
    if k == 1:
        return Fraction(1) if Fnew[0] == Fold[0] else None
    if k == 2:
        a, b = sub(Fnew[1], Fnew[0]), sub(Fold[1], Fold[0])
        for i in range(len(a)):
            if b[i] != 0:
                r = Fraction(a[i], b[i])
                break
        else:
            return None
        if any(a[i] != r * b[i] for i in range(len(a))):
            return None
        return abs(r)
    a = cross3(sub(Fnew[1], Fnew[0]), sub(Fnew[2], Fnew[0]))
    b = cross3(sub(Fold[1], Fold[0]), sub(Fold[2], Fold[0]))
    for i in range(3):
        if b[i] != 0:
            r = Fraction(a[i], b[i])
            break
    else:
        return None
    if any(a[i] != r * b[i] for i in range(3)):
        return None
    return abs(r)


def in_closed_facet(F, x):
    """x in the closed (dim-1)-simplex F embedded in dim-space (exact)"""
    k = len(F)
    if k == 1:
        return x == F[0]
    if k == 2:
        a, b = F
        d, e = sub(b, a), sub(x, a)
        if len(d) == 2:
            if d[0] * e[1] - d[1] * e[0] != 0:
                return False
        elif any(cross3(d, e)):
            return False
        t = dot(d, e)
        return 0 <= t <= dot(d, d)
    a, b, c = F
    n = cross3(sub(b, a), sub(c, a))
    if dot(n, sub(x, a)) != 0:
        return False
    nn = dot(n, n)
    w0 = dot(cross3(sub(b, x), sub(c, x)), n)
    w1 = dot(cross3(sub(c, x), sub(a, x)), n)
    w2 = dot(cross3(sub(a, x), sub(b, x)), n)
    return w0 >= 0 and w1 >= 0 and w2 >= 0 and w0 + w1 + w2 == nn


# ---------------------------------------------------------------------------
# the property as a predicate over (old mesh, marked, new mesh)

def segments_meet(p1, p2, q1, q2):
    """exact: do the closed segments p1p2 and q1q2 (integer coordinates, 2-D or 3-D) intersect?"""
    if len(p1) == 2:
        p1, p2, q1, q2 = p1 + (0,), p2 + (0,), q1 + (0,), q2 + (0,)
    d1, d2, r = sub(p2, p1), sub(q2, q1), sub(q1, p1)
    n = cross3(d1, d2)
    nn = dot(n, n)
    if nn:
        if dot(r, n) != 0:
            return False                      # skew lines
        sn = dot(cross3(r, d2), n)            # s = sn / nn, t = tn / nn
        tn = dot(cross3(r, d1), n)
        return 0 <= sn <= nn and 0 <= tn <= nn
    if any(cross3(r, d1)):
        return False                          # parallel, not collinear
    a, b = dot(r, d1), dot(sub(q2, p1), d1)
    return max(min(a, b), 0) <= min(max(a, b), dot(d1, d1))


def crossing_boundary_edges(P, f2c, pf):
    """two edges of facets with a single neighbour that have no common end point but intersect: the
    signature of a flat crack (a degenerate Delaunay simplex that was removed leaves the two
    triangulations of a planar quadrilateral facing each other) - such a mesh is not conforming
    although no vertex lies inside another cell"""
    edges = set()
    for f, ks in f2c.items():
        if len(ks) != 1:
            continue
        if len(f) == 2:
            edges.add(tuple(sorted(f)))
        else:
            for e in itertools.combinations(f, 2):
                edges.add(tuple(sorted(e)))
    edges = sorted(edges)
    if len(edges) < 2:
        return None
    pf = np.asarray(pf)
    E = np.array(edges)
    lo = np.minimum(pf[:, E[:, 0]], pf[:, E[:, 1]])
    hi = np.maximum(pf[:, E[:, 0]], pf[:, E[:, 1]])
    for i, (a, b) in enumerate(edges):
        cand = np.nonzero(((lo[:, i + 1:] <= hi[:, [i]]) & (hi[:, i + 1:] >= lo[:, [i]])).all(axis=0))[0]
        for j in cand.tolist():
            c, d = edges[i + 1 + j]
            if a in (c, d) or b in (c, d):
                continue
            if segments_meet(P[a], P[b], P[c], P[d]):
                return {"edges": [(a, b), (c, d)]}
    return None


def input_ok(m):
    """generated inputs must themselves be valid conforming meshes"""
    g = Geo(m.p)
    P = g.pts(m.p)
    cells = vertex_cells(m)
    nv = int(m.t[:nverts_of(m)].max()) + 1
    bad, f2c = validity(P[:nv], cells)
    if bad:
        return False
    if hanging_nodes(P[:nv], cells, m.p[:, :nv]) is not None:
        return False
    if opposite_sides(P, cells, f2c) is not None:
        return False
    if m.p.shape[0] >= 2 and crossing_boundary_edges(P, f2c, m.p[:, :nv]) is not None:
        return False
    return True


def node_table(m):
    """global node numbers of every cell: vertex rows of t, then (second-order classes) the
    extra nodes as numbered by the mesh's own Dofs object; rows follow m.elem.doflocs"""
    nn = nverts_of(m)
    if m.elem.doflocs.shape[0] == nn:
        return np.asarray(m.t[:nn])
    return np.asarray(m.dofs.element_dofs)


def straight_sided(m, P):
    """second-order classes: every extra node sits at the affine image of its reference location"""
    nn = nverts_of(m)
    tab = node_table(m)
    if tab.shape[0] == nn:
        return None
    ref = m.elem.doflocs          # nodes x dim, entries 0, .5, 1
    if not (tab[:nn] == m.t[:nn]).all():
        return {"note": "vertex rows of the node table differ from t"}
    for j in range(nn, tab.shape[0]):
        lam = [Fraction(float(x)) for x in ref[j]]
        lam = [1 - sum(lam)] + lam
        for k in range(tab.shape[1]):
            want = tuple(sum(l * P[int(tab[i, k])][d] for i, l in enumerate(lam)) for d in range(len(P[0])))
            if tuple(Fraction(x) for x in P[int(tab[j, k])]) != want:
                return {"cell": k, "local node": j}
    return None


def oracle(old, marked, new, uniform=False, check_tags=True):
    """returns (failures, parent) ; failures = list of (clause, what, detail)"""
    fails = []
    nn = nverts_of(old)
    if type(new) is not type(old):
        return [("valid", "refined mesh has another class", {"got": type(new).__name__})], None
    if new.p.shape[0] != old.p.shape[0] or new.t.shape[0] != old.t.shape[0]:
        return [("valid", "refined mesh has wrong array shapes", None)], None
    if not np.issubdtype(new.t.dtype, np.integer):
        return [("valid", "cell array is not of integer type", {"dtype": str(new.t.dtype)})], None
    if not np.isfinite(new.p).all():
        return [("valid", "non-finite coordinates", None)], None
    g = Geo(old.p, new.p)
    Pold, Pnew = g.pts(old.p), g.pts(new.p)
    cold, cnew = vertex_cells(old), vertex_cells(new)
    nvo = int(old.t[:nn].max()) + 1          # vertices come first, also in the second-order classes
    nvn = int(new.t[:nn].max()) + 1 if new.t.size else 0
    # -- old vertices keep indices (and positions)
    if nvn < nvo or Pnew[:nvo] != Pold[:nvo]:
        j = next((j for j in range(min(nvo, len(Pnew))) if Pnew[j] != Pold[j]), None)
        fails.append(("old-vertices", "an old vertex does not keep its index / position", {"vertex": j}))
    # -- stand-alone validity
    bad, f2c = validity(Pnew[:nvn], cnew)
    for what, detail in bad:
        fails.append(("valid", what, detail))
    if len(set(Pnew)) != len(Pnew) and not any(w == "duplicate vertices" for _, w, _ in fails):
        fails.append(("valid", "duplicate nodes", None))
    if len(Pnew) != int(node_table(new).max()) + 1:
        fails.append(("valid", "node not used by any cell", None))
    if any(c == "valid" and "out of range" in w for c, w, _ in fails):
        return fails, None
    ss = straight_sided(new, Pnew)
    if ss is not None:
        fails.append(("valid", "second-order node is not at the midpoint of its straight edge", ss))
    # -- conformity
    hn = hanging_nodes(Pnew[:nvn], cnew, new.p[:, :nvn])
    if hn is not None:
        fails.append(("conforming", "hanging node: a vertex lies in a cell without being one of its vertices", hn))
    op = opposite_sides(Pnew, cnew, f2c)
    if op is not None:
        fails.append(("conforming", "two cells sharing a facet lie on the same side of it", op))
    # -- nestedness and same domain
    parents = find_parents(Pold, cold, old.p[:, :nvo], Pnew, cnew, new.p[:, :nvn])
    parent = []
    for k, par in enumerate(parents):
        if len(par) != 1:
            fails.append(("nested", "new cell lies inside %d old cells" % len(par), {"cell": k, "verts": cnew[k],
                                                                                   "old cells": par}))
            return fails, None
        parent.append(par[0])
    children = {}
    for k, K in enumerate(parent):
        children.setdefault(K, []).append(k)
    for K, c in enumerate(cold):
        ch = children.get(K, [])
        tot = sum(abs(measure([Pnew[v] for v in cnew[k]])) for k in ch)
        if tot != abs(measure([Pold[v] for v in c])):
            fails.append(("domain", "measures of the children do not add up to the old cell", {"old cell": K,
                                                                                                "children": ch}))
            break
        if len(ch) > 1:
            cs = [[Pnew[v] for v in cnew[k]] for k in ch]
            for i, j in itertools.combinations(range(len(ch)), 2):
                if not interiors_disjoint(cs[i], cs[j]):
                    fails.append(("domain", "two children of an old cell overlap", {"old cell": K,
                                                                                     "children": [ch[i], ch[j]]}))
                    break
            else:
                continue
            break
    # new boundary facets lie on the old boundary
    of2c = {}
    for k, c in enumerate(cold):
        for f in facet_keys(c):
            of2c.setdefault(f, []).append(k)
    for f, ks in f2c.items():
        if len(ks) != 1:
            continue
        K = parent[ks[0]]
        hit = False
        for F in facet_keys(cold[K]):
            if len(of2c[F]) == 1 and all(in_closed_facet([Pold[v] for v in F], Pnew[v]) for v in f):
                hit = True
                break
        if not hit:
            fails.append(("domain", "a facet with a single neighbour is not on the boundary of the old mesh "
                                    "(hole or slit)", {"facet": f, "cell": ks[0]}))
            break
    # -- marked cells subdivided
    for K in (range(len(cold)) if uniform else sorted(set(int(i) for i in marked))):
        if len(children.get(K, [])) < 2:
            fails.append(("marked", "marked cell has not been subdivided", {"old cell": K}))
            break
    # -- tags
    if check_tags:
        if old._subdomains is not None:
            if new._subdomains is None:
                fails.append(("subdomains", "named subdomains dropped", None))
            else:
                for name, ix in old._subdomains.items():
                    if name not in new._subdomains:
                        fails.append(("subdomains", "a named subdomain disappeared", {"name": name}))
                        continue
                    got = np.asarray(new._subdomains[name])
                    want = sorted(k for k, K in enumerate(parent) if K in set(int(i) for i in ix))
                    if (got.ndim != 1 or not np.issubdtype(got.dtype, np.integer)
                            or sorted(set(got.tolist())) != want):
                        fails.append(("subdomains", "named subdomain does not cover the same region",
                                      {"name": name, "old": np.asarray(ix).tolist(), "got": got.tolist(),
                                       "want": want}))
        if new._boundaries is not None:
            # retained named boundaries must denote the same point sets
            fb = boundaries_same(old, new, Pold, Pnew)
            if fb is not None:
                fails.append(("boundaries", "a retained named boundary no longer denotes the same facets", fb))
    return fails, parent


def facet_coords(m, P, f):
    return [P[int(v)] for v in m.facets[:, f]]


def boundaries_same(old, new, Pold, Pnew):
    if old._boundaries is None:
        return {"note": "boundaries appeared from nowhere"}
    nfn = new.facets.shape[1]
    for name, ix in new._boundaries.items():
        if name not in old._boundaries:
            return {"name": name, "note": "unknown name"}
        ix = np.asarray(ix)
        oix = np.asarray(old._boundaries[name])
        if ix.ndim != 1 or (ix.size and (ix.min() < 0 or ix.max() >= nfn)):
            return {"name": name, "note": "facet index out of range", "got": ix.tolist()}
        olds = [facet_coords(old, Pold, int(f)) for f in oix]
        tot = [Fraction(0)] * len(olds)
        for f in sorted(set(ix.tolist())):
            F = facet_coords(new, Pnew, f)
            for i, O in enumerate(olds):
                if all(in_closed_facet(O, x) for x in F):
                    tot[i] += facet_measure_ratio(F, O)
                    break
            else:
                return {"name": name, "note": "new facet not inside an old facet of that name", "facet": f}
        if any(t != 1 for t in tot):
            return {"name": name, "note": "old facet not covered", "old facet": int(oix[[t != 1 for t in tot].index(True)])}
    for name in old._boundaries:
        if name not in new._boundaries:
            return {"name": name, "note": "name disappeared while others were kept"}
    return None


# ---------------------------------------------------------------------------
# generators

def strip_mesh(rng, n):
    """zigzag strip of n triangles in which the longest edge of triangle k is shared with triangle
    k+1 (as a shorter edge of that one): marking triangle 0 propagates through the whole strip, one
    triangle per pass of the closure loop"""
    H = rng.choice([4, 8])
    pts = [(float(k * k), float(H * (k % 2))) for k in range(n + 2)]
    tri = [(k, k + 1, k + 2) for k in range(n)]
    return np.array(pts).T.copy(), np.array(tri, dtype=np.int64).T.copy()


def gen_input(rng, kind, size=None, tags=True):
    """a valid conforming straight-sided mesh of the requested kind with random tags"""
    for _ in range(50):
        base = kind.rstrip("2")
        if base == "tri" and rng.random() < 0.12:
            p, t = strip_mesh(rng, size or rng.randint(3, 12))
            info = {"gen": "strip"}
            if rng.random() < 0.5:
                p, t, _ = meshes.renumber(rng, p, t)
                info["renumbered"] = True
            if rng.random() < 0.5:
                t, _ = meshes.permute_cells(rng, t)
                info["cells-permuted"] = True
            m = meshes.CLS["tri"](p, t.astype(np.int32))
            info.update(kind=kind, nt=int(m.t.shape[1]), nv=int(m.p.shape[1]))
        else:
            m, info = meshes.gen_first_order(rng, base, size=size, reorder=False if kind.endswith("2") else None)
        if kind.endswith("2"):
            m = meshes.to_second_order(rng, m, base, curved=False)
            info["kind"] = kind
        if not input_ok(m):
            REJECTED[0] += 1
            continue
        if tags and rng.random() < 0.8:
            m, t = meshes.random_tags(rng, m, oriented=False)
            info["tags"] = {"subdomains": t["subdomains"], "boundaries": {k: v[0] for k, v in t["boundaries"].items()}}
        return m, info
    raise RuntimeError("no valid input mesh generated")


REJECTED = [0]


def refine(m, marked):
    return m.refined(marked)


def judge(ctx, old, marked, new_or_exc, info, step="adaptive", history=None, check_tags=True):
    """evaluate the oracle, report violations; returns parent map or None"""
    cls = type(old).__name__
    replay = {"mesh": mesh_record(old), "marked": None if marked is None else [int(i) for i in marked],
              "step": step, "info": info}
    if history is not None:
        replay["history"] = history
    if isinstance(new_or_exc, BaseException):
        ctx.count("fail:raise:%s:%s" % (cls, step))
        ctx.violation("refined() raised " + exc_kind(new_or_exc), dict(replay, err=repr(new_or_exc)),
                      {"clause": "raise", "cls": cls, "step": step})
        return None
    try:
        fails, parent = oracle(old, marked, new_or_exc, uniform=(step == "uniform"), check_tags=check_tags)
    except Exception as e:  # the refined mesh is so broken that it cannot even be inspected
        ctx.violation("refined mesh cannot be inspected: " + exc_kind(e), dict(replay, err=repr(e)),
                      {"clause": "valid", "cls": cls, "step": step})
        return None
    for clause, what, detail in fails:
        ctx.count("fail:%s:%s:%s" % (clause, cls, step))
        ctx.violation(what, dict(replay, clause=clause, detail=detail, refined=mesh_record(new_or_exc)),
                      {"clause": clause, "cls": cls, "step": step})
    return parent if not fails else None


class Timeout(Exception):
    pass


def _alarm(signum, frame):
    raise Timeout()


def call_refined(old, marked, step):
    """mesh.refined(...) with a watchdog: the worklist of the tetrahedral code has no proved bound"""
    import signal
    prev = signal.signal(signal.SIGALRM, _alarm)
    signal.alarm(60)
    try:
        if step == "uniform":
            return old.refined()
        return old.refined(marked)
    finally:
        signal.alarm(0)
        signal.signal(signal.SIGALRM, prev)


def marked_arg(rng, marked, old_cls=None, nt=0):
    """the same marked set in the forms callers use: int32/int64 array, list, unsorted, boolean mask"""
    r = rng.random()
    if old_cls in ("MeshTri1", "MeshTri2") and marked and nt and r < 0.15:
        # a boolean mask over the cells, e.g. refined(eta > theta * eta.max()) (triangles only: the other classes
        # reject masks on the pinned tree)
        mask = np.zeros(nt, dtype=bool)
        mask[list(marked)] = True
        return mask
    if r < 0.4:
        return np.array(marked, dtype=np.int64)
    if r < 0.7:
        return np.array(marked, dtype=np.int32)
    if r < 0.85 and marked:
        return [int(i) for i in marked]
    return np.array(sorted(marked), dtype=np.int32)


def run_case(ctx, old, marked, info, step="adaptive", history=None, check_tags=True):
    try:
        new = call_refined(old, None if marked is None else
                           marked_arg(ctx.rng, marked, type(old).__name__, int(old.t.shape[1])), step)
    except Timeout:
        ctx.count("fail:timeout:%s:%s" % (type(old).__name__, step))
        ctx.violation("refined() did not return within 60 s", {"mesh": mesh_record(old), "marked": marked, "step": step,
                                                               "info": info, "history": history},
                      {"clause": "terminates", "cls": type(old).__name__, "step": step})
        return None, None
    except Exception as e:
        judge(ctx, old, marked, e, info, step, history)
        return None, None
    parent = judge(ctx, old, marked, new, info, step, history, check_tags)
    return new, parent


def theta_marked(ctx, m):
    """marked set through skfem.utils.adaptive_theta on a random estimator; the helper itself is
    checked against its specification {k : theta * max(est) < est[k]}"""
    from skfem.utils import adaptive_theta
    rng = ctx.rng
    nt = m.t.shape[1]
    est = np.array([rng.choice([0.0, 0.25, 0.5, 1.0, 2.0, rng.random()]) for _ in range(nt)])
    theta = rng.choice([0.0, 0.25, 0.5, 0.75, 0.99])
    mx = rng.choice([None, None, 1.0])
    got = adaptive_theta(est, theta) if mx is None else adaptive_theta(est, theta, max=mx)
    ref = theta * (float(est.max()) if mx is None else mx)
    want = [k for k in range(nt) if ref < est[k]]
    ok = (isinstance(got, np.ndarray) and got.ndim == 1 and np.issubdtype(got.dtype, np.integer)
          and got.tolist() == want)
    ctx.count("adaptive_theta")
    if not ok:
        ctx.violation("adaptive_theta does not return the cells with estimator above theta * max",
                      {"est": est.tolist(), "theta": theta, "max": mx, "got": np.asarray(got).tolist(), "want": want},
                      {"clause": "adaptive_theta"})
    return want


# ---------------------------------------------------------------------------

def count_info(ctx, info):
    if info.get("tags"):
        ctx.count("tagged")
    for kk in ("holes", "renumbered", "cells-permuted", "local-reorder"):
        if info.get(kk):
            ctx.count(kk)
    ctx.count("gen:%s:%s" % (info.get("kind"), info.get("gen")))


def search(ctx, t_exh=0.45, t_rand=0.62, t_hist=0.8):
    rng = ctx.rng
    # 1. ALL marked subsets of small meshes
    nmax = ctx.scale(8, 12)
    per_kind = ctx.scale(3, 4)
    for rnd in range(per_kind):
        for kind in KINDS:
            if ctx.time_left(t_exh) < 0:
                break
            # 2^nt subsets: keep the dear classes a little smaller
            cap = nmax - (2 if kind == "tet2" else 1 if kind in ("tet", "tri2") else 0)
            best = None
            for tries in range(40):
                size = None if kind == "line" else rng.choice([None, 4, 5, 6, 7] if kind.startswith("tri")
                                                              else [None, 5, 6])
                mm, ii = gen_input(rng, kind, size=size)
                if 3 <= mm.t.shape[1] <= cap and (best is None or mm.t.shape[1] > best[0].t.shape[1]
                                                   or rng.random() < 0.2):
                    best = (mm, ii)
            if best is None:
                continue
            m, info = best
            nt = m.t.shape[1]
            ctx.count("exhaustive-mesh:" + kind)
            ctx.count("exhaustive-mesh-cells:%d" % nt)
            count_info(ctx, info)
            complete = True
            for mask in range(1 << nt):
                if ctx.time_left(t_exh) < 0:
                    complete = False
                    break
                marked = [k for k in range(nt) if mask >> k & 1]
                if rng.random() < 0.5:
                    rng.shuffle(marked)
                ctx.case({"cls": kind, "p": m.p.tolist(), "t": m.t.tolist(), "marked": sorted(marked)},
                         nontrivial=bool(marked), sample={"info": info, "marked": marked} if mask == 5 and rnd == 0 else None)
                ctx.count("subset:" + kind)
                run_case(ctx, m, marked, info)
            if complete:
                ctx.count("exhaustive-complete:" + kind)
    # 2. random subsets of larger meshes (incl. meshes that were refined before)
    n = ctx.scale(2500, 40000)
    for it in range(n):
        if ctx.time_left(t_rand) < 0:
            break
        kind = KINDS[it % len(KINDS)]
        m, info = gen_input(rng, kind)
        nt = m.t.shape[1]
        if kind.startswith("tet") and nt > 60:
            continue
        if rng.random() < 0.2:
            marked = theta_marked(ctx, m)
        else:
            k = rng.choice([0, 1, 1, 2, max(1, nt // 3), max(1, nt // 2), nt])
            marked = rng.sample(range(nt), min(k, nt))
        ctx.case({"cls": kind, "p": m.p.tolist(), "t": m.t.tolist(), "marked": sorted(marked)}, nontrivial=bool(marked))
        ctx.count("random-subset:" + kind)
        count_info(ctx, info)
        run_case(ctx, m, marked, info)
    # 3. histories of adaptive and uniform steps
    nh = ctx.scale(1500, 20000)
    maxlen = ctx.scale(5, 8)
    for it in range(nh):
        if ctx.time_left(t_hist) < 0:
            break
        kind = KINDS[it % len(KINDS)]
        m, info = gen_input(rng, kind, size={"line": None, "tri": 5, "tet": 5, "tri2": 5, "tet2": 5}[kind])
        if m.t.shape[1] > (12 if kind.startswith("tet") else 30):
            continue
        hist = []
        m0 = m
        L = rng.randint(2, maxlen)
        for s in range(L):
            nt = m.t.shape[1]
            limit = 150 if kind.startswith("tet") else 400
            if nt > limit:
                break
            if rng.random() < 0.25 and nt * (2 ** DIM[kind]) <= limit:
                step, marked = "uniform", None
            else:
                step = "adaptive"
                if rng.random() < 0.15:
                    marked = theta_marked(ctx, m)
                else:
                    k = rng.choice([1, 1, 2, 3, max(1, nt // 4), max(1, nt // 2)])
                    # refine where it was refined before: the last cells are the youngest
                    pool = list(range(nt)) if rng.random() < 0.6 else list(range(max(0, nt - 6), nt))
                    marked = rng.sample(pool, min(k, len(pool)))
            hist.append({"step": step, "marked": marked})
            ctx.count("history-step:" + step)
            new, parent = run_case(ctx, m, marked, info, step=step,
                                   history={"start": mesh_record(m0), "steps": list(hist)})
            if new is None or parent is None:
                break
            m = new
        ctx.case({"cls": kind, "p": m0.p.tolist(), "t": m0.t.tolist(), "history": hist}, nontrivial=len(hist) > 1,
                 sample={"info": info, "history": hist} if it < 2 else None)
        ctx.count("history:" + kind)
        ctx.count("history-length:%d" % len(hist))
        count_info(ctx, info)


# ---------------------------------------------------------------------------
# correspondence with the Lean model

def tri_request(m, marked, subs):
    return {"op": "refine.tri", "p": qlist(m.p.T), "t": m.t[:3].T.tolist(), "marked": [int(i) for i in marked],
            "subdomains": [[int(i) for i in s] for s in subs]}


def tri_compare(ctx, m, marked, subs, out, info):
    """model output vs MeshTri1._adaptive (public result and, where present, its three stages)"""
    from dataclasses import replace
    inp = {"mesh": mesh_record(m), "marked": marked, "info": info}
    if "error" in out:
        ctx.corr("refine.tri", False, inp, out, None)
        return
    names = [f"s{i}" for i in range(len(subs))]
    mm = m.with_subdomains({n: np.array(s, dtype=np.int32) for n, s in zip(names, subs)})
    new = mm.refined(np.array(marked, dtype=np.int64))
    cells = np.array(out["cells"], dtype=np.int64).reshape(-1, 3)
    pts = [[Fraction(x) for x in q] for q in unq(out["points"])]
    impl_p = [[Fraction(float(x)) for x in col] for col in new.p.T]
    ok_t = np.array_equal(np.sort(cells, axis=1).T, new.t)
    ok_p = pts == impl_p
    ctx.corr("refine.tri: refined().t (columns sorted by the constructor)", ok_t, inp, np.sort(cells, axis=1).T, new.t)
    ctx.corr("refine.tri: refined().p", ok_p, inp, out["points"], new.p)
    got = {n: np.asarray(new.subdomains[n]).tolist() for n in names} if new.subdomains is not None else None
    want = {n: s for n, s in zip(names, out["subdomains"])}
    ctx.corr("refine.tri: subdomains (new_t arithmetic)", got == want, inp, want, got)
    # the three stages, when the implementation still has them
    cls = type(m)
    if all(hasattr(cls, a) for a in ("_adaptive_sort_mesh", "_adaptive_find_facets", "_adaptive_split_elements")):
        ts = cls._adaptive_sort_mesh(m.p, m.t)
        ctx.corr("refine.tri: _adaptive_sort_mesh", ts.T.tolist() == out["sorted"], inp, out["sorted"], ts.T)
        sm = replace(m, t=ts, sort_t=False)
        fac = cls._adaptive_find_facets(sm, np.array(marked, dtype=np.int64))
        ctx.corr("refine.tri: _adaptive_find_facets (closure)", [bool(v) for v in fac] == out["marks"], inp,
                 out["marks"], fac)
        _, t_raw, _ = cls._adaptive_split_elements(sm, fac, None)
        ctx.corr("refine.tri: _adaptive_split_elements (templates, order)", np.array_equal(t_raw, cells.T), inp,
                 cells.T, t_raw)
    else:
        ctx.count("tri-stages-not-present")
    for c in out["cls"]:
        ctx.count("tri-class:" + c)


def line_request(m, marked, subs):
    return {"op": "refine.line", "p": qlist(m.p[0]), "t": m.t.T.tolist(), "marked": [int(i) for i in marked],
            "subdomains": [[int(i) for i in s] for s in subs]}


def line_compare(ctx, m, marked, subs, out, info):
    inp = {"mesh": mesh_record(m), "marked": marked, "info": info}
    if "error" in out:
        ctx.corr("refine.line", False, inp, out, None)
        return
    names = [f"s{i}" for i in range(len(subs))]
    mm = m.with_subdomains({n: np.array(s, dtype=np.int32) for n, s in zip(names, subs)})
    new = mm.refined(np.array(marked, dtype=np.int64))
    cells = np.array(out["cells"], dtype=np.int64).reshape(-1, 2)
    ctx.corr("refine.line: refined().t", np.array_equal(cells.T, new.t), inp, cells.T, new.t)
    pts = [Fraction(x) for x in unq(out["points"])]
    ctx.corr("refine.line: refined().p", pts == [Fraction(float(x)) for x in new.p[0]], inp, out["points"], new.p)
    got = {n: np.asarray(new.subdomains[n]).tolist() for n in names} if new.subdomains is not None else None
    want = {n: s for n, s in zip(names, out["subdomains"])}
    ctx.corr("refine.line: subdomains (index map)", got == want, inp, want, got)
    # the model's parent map against exact geometry
    g = Geo(m.p, new.p)
    par = find_parents(g.pts(m.p), vertex_cells(m), m.p, g.pts(new.p), vertex_cells(new), new.p)
    ctx.corr("refine.line: parent map", [p_[0] if len(p_) == 1 else None for p_ in par] == out["parents"], inp,
             out["parents"], par)


def tet_step_case(rng):
    """one tetrahedron whose longest edge is unique by a wide margin"""
    while True:
        pts = [tuple(rng.randint(-8, 8) / 4 for _ in range(3)) for _ in range(4)]
        if len(set(pts)) < 4:
            continue
        P = [tuple(Fraction(x) for x in q) for q in pts]
        if measure(P) == 0:
            continue
        l = sorted(sum((a - b) ** 2 for a, b in zip(P[i], P[j])) for i, j in itertools.combinations(range(4), 2))
        if l[-1] - l[-2] >= Fraction(1, 16):
            return np.array(pts).T


def build_tree(S, leaves, P, vid, cells):
    """bisection tree of the simplex S (tuple of vertex numbers) whose leaves are exactly the new cells
    `leaves` (indices into cells); None if there is none"""
    if len(leaves) == 1:
        return {"c": leaves[0]} if sorted(cells[leaves[0]]) == sorted(S) else None
    n = len(S)
    for i, j in itertools.combinations(range(n), 2):
        s = tuple(a + b for a, b in zip(P[S[i]], P[S[j]]))
        if any(x % 2 for x in s):
            continue
        m = vid.get(tuple(x // 2 for x in s))
        if m is None or m in S:
            continue
        SL = S[:j] + (m,) + S[j + 1:]
        SR = S[:i] + (m,) + S[i + 1:]
        CL, CR = [P[v] for v in SL], [P[v] for v in SR]
        L, R = [], []
        ok = True
        for c in leaves:
            inl = all(in_closed(CL, P[v]) for v in cells[c])
            inr = all(in_closed(CR, P[v]) for v in cells[c])
            if inl == inr:
                ok = False
                break
            (L if inl else R).append(c)
        if not ok or not L or not R:
            continue
        l = build_tree(SL, L, P, vid, cells)
        if l is None:
            continue
        r = build_tree(SR, R, P, vid, cells)
        if r is None:
            continue
        return {"i": i, "j": j, "m": m, "l": l, "r": r}
    return None


def certificate(old, new):
    """bisection forest reconstructed from the two meshes only (None if there is none)"""
    g = Geo(old.p, new.p)
    Pold, Pnew = g.pts(old.p), g.pts(new.p)
    cold, cnew = vertex_cells(old), vertex_cells(new)
    nvo, nvn = int(old.t.max()) + 1, int(new.t.max()) + 1
    parents = find_parents(Pold, cold, old.p[:, :nvo], Pnew, cnew, new.p[:, :nvn])
    if any(len(p_) != 1 for p_ in parents):
        return None
    ch = {}
    for k, p_ in enumerate(parents):
        ch.setdefault(p_[0], []).append(k)
    vid = {x: j for j, x in enumerate(Pnew)}
    forest = []
    for K, S in enumerate(cold):
        if K not in ch:
            return None
        # the tree is built in the new mesh's numbering; old vertices must therefore keep theirs
        tr = build_tree(tuple(S), ch[K], Pnew, vid, cnew)
        if tr is None:
            return None
        forest.append(tr)
    return forest


def check_request(old, new, forest, marked):
    d = old.p.shape[0]
    return {"op": "refine.check", "dim": d,
            "old": {"p": qlist(old.p.T), "t": old.t[:d + 1].T.tolist()},
            "new": {"p": qlist(new.p.T), "t": new.t[:d + 1].T.tolist()},
            "forest": forest, "marked": sorted(set(int(i) for i in marked))}


def unrefine_one(new, forest, rng):
    """corrupt a refinement: glue the two children of a lowest node back together where the bisected
    edge is shared with another cell (leaves a hanging node); returns (mesh, forest) or None"""
    cand = []

    def walk(tr, K, path):
        if "c" in tr:
            return
        if "c" in tr["l"] and "c" in tr["r"]:
            cand.append((K, path))
        walk(tr["l"], K, path + ["l"])
        walk(tr["r"], K, path + ["r"])
    for K, tr in enumerate(forest):
        walk(tr, K, [])
    rng.shuffle(cand)
    for K, path in cand:
        node = forest[K]
        for s in path:
            node = node[s]
        cl, cr, mid = node["l"]["c"], node["r"]["c"], node["m"]
        cells = new.t.T.tolist()
        others = [k for k, c in enumerate(cells) if mid in c and k not in (cl, cr)]
        if not others:
            continue
        a = [v for v in cells[cl] if v not in cells[cr]]
        merged = [v if v != mid else None for v in cells[cr]]
        if len(a) != 1:
            continue
        merged = [a[0] if v is None else v for v in merged]
        keep = [k for k in range(len(cells)) if k != cr]
        t2 = np.array([merged if k == cl else cells[k] for k in keep], dtype=np.int32).T
        remap = {k: i for i, k in enumerate(keep)}

        def ren(tr):
            if "c" in tr:
                return {"c": remap[tr["c"]]}
            return dict(tr, l=ren(tr["l"]), r=ren(tr["r"]))
        f2 = []
        for KK, tr in enumerate(forest):
            if KK != K:
                f2.append(ren(tr))
                continue

            def rebuild(tr, path):
                if not path:
                    return {"c": remap[cl]}
                other = "r" if path[0] == "l" else "l"
                return dict(tr, **{path[0]: rebuild(tr[path[0]], path[1:]), other: ren(tr[other])})
            f2.append(rebuild(tr, path))
        return type(new)(new.p, t2), f2
    return None


def correspondence(ctx):
    rng = ctx.rng
    if not ctx.driver.available():
        ctx.broken.append({"kind": "driver-missing"})
        return
    reqs, after = [], []
    # triangles: ALL subsets of tiny meshes + random subsets of larger ones
    ntri = ctx.scale(60, 400)
    nexh = 0
    for it in range(ntri):
        m, info = gen_input(rng, "tri", tags=False, size=rng.choice([None, None, 4, 5, 8]))
        nt = m.t.shape[1]
        if nexh < ctx.scale(4, 12) and nt <= 6:
            nexh += 1
            ctx.count("tri-correspondence-exhaustive-mesh")
            sets = [[k for k in range(nt) if mask >> k & 1] for mask in range(1 << nt)]
        else:
            sets = [rng.sample(range(nt), rng.choice([0, 1, 1, 2, max(1, nt // 3), nt]) % (nt + 1))]
        for marked in sets:
            if rng.random() < 0.3:
                rng.shuffle(marked)
            subs = [sorted(rng.sample(range(nt), rng.randint(1, nt))) for _ in range(rng.randint(0, 2))]
            reqs.append(tri_request(m, marked, subs))
            after.append((tri_compare, m, marked, subs, info))
    # a mesh refined several times (history) keeps corresponding
    for it in range(ctx.scale(6, 30)):
        m, info = gen_input(rng, "tri", size=5, tags=False)
        for s in range(3):
            nt = m.t.shape[1]
            if nt > 300:
                break
            marked = rng.sample(range(nt), max(1, nt // 5))
            subs = [sorted(rng.sample(range(nt), rng.randint(1, nt)))]
            reqs.append(tri_request(m, marked, subs))
            after.append((tri_compare, m, marked, subs, dict(info, history_step=s)))
            m = m.refined(np.array(marked))
    nline = ctx.scale(60, 400)
    for it in range(nline):
        m, info = gen_input(rng, "line", tags=False)
        nt = m.t.shape[1]
        marked = rng.sample(range(nt), rng.randint(0, nt))
        subs = [sorted(rng.sample(range(nt), rng.randint(1, nt))) for _ in range(rng.randint(0, 2))]
        reqs.append(line_request(m, marked, subs))
        after.append((line_compare, m, marked, subs, info))
    outs = ctx.driver.run(reqs)
    for (fn, m, marked, subs, info), out in zip(after, outs):
        try:
            fn(ctx, m, marked, subs, out, info)
        except Exception as e:
            ctx.corr("refine: implementation raised " + exc_kind(e), False, {"mesh": mesh_record(m), "marked": marked},
                     None, repr(e))
    # tetrahedra: one step on a single cell
    from skfem import MeshTet1
    reqs, keep = [], []
    for it in range(ctx.scale(40, 300)):
        p = tet_step_case(rng)
        m = MeshTet1(p, np.array([[0], [1], [2], [3]], dtype=np.int32))
        reqs.append({"op": "refine.tet.step", "p": qlist(p.T), "cell": [0, 1, 2, 3], "m": 4})
        keep.append(m)
    for m, out in zip(keep, ctx.driver.run(reqs)):
        try:
            new = m.refined(np.array([0]))
            impl = new.t.T.tolist()
            ok = "error" not in out and impl == [out["child1"], out["child2"]] and new.p.shape[1] == 5
        except Exception as e:
            impl, ok = repr(e), False
        ctx.corr("refine.tet.step: sort + bisect of one cell", ok, {"p": m.p.tolist()}, out, impl)
    # certificates: bisection forests reconstructed from the output, checked by the verified checker
    reqs, keep = [], []
    ncert = ctx.scale(60, 500)
    for it in range(ncert):
        if ctx.time_left(0.25) < 0:
            break
        kind = "tet" if it % 4 else "line"
        m, info = gen_input(rng, kind, tags=False)
        nt = m.t.shape[1]
        if nt > 40:
            continue
        steps = rng.choice([1, 1, 2, 3])
        for s in range(steps):
            nt = m.t.shape[1]
            if nt > 120:
                break
            marked = rng.sample(range(nt), rng.choice([1, 1, 2, max(1, nt // 3), nt]) % (nt + 1) or 1)
            try:
                new = call_refined(m, np.array(marked, dtype=np.int64), "adaptive")
            except Exception:
                break          # reported by the search layer
            forest = certificate(m, new)
            inp = {"mesh": mesh_record(m), "marked": marked, "info": info}
            if forest is None:
                ctx.corr("refine.check: a bisection forest exists for the implementation's output", False, inp, None,
                         mesh_record(new))
                break
            reqs.append(check_request(m, new, forest, marked))
            keep.append(("accept", inp, new))
            ctx.count("certificate:" + kind)
            if rng.random() < 0.5:
                bad = unrefine_one(new, forest, rng)
                if bad is not None:
                    reqs.append(check_request(m, bad[0], bad[1], []))
                    keep.append(("reject", inp, bad[0]))
                    ctx.count("certificate-corrupted:" + kind)
            m = new
    for (mode, inp, new), out in zip(keep, ctx.driver.run(reqs)):
        if mode == "accept":
            ctx.corr("refine.check: verified checker accepts the certificate of the output", out.get("ok") is True,
                     inp, out, mesh_record(new))
        else:
            cl = out.get("clauses", [])
            ctx.corr("refine.check: checker rejects a refinement with a hanging node (exit clause only)",
                     out.get("ok") is False and len(cl) == 7 and cl[:5] == [True] * 5 and cl[5] is False,
                     inp, out, mesh_record(new))


# ---------------------------------------------------------------------------
# fixed witnesses of the defects found on the pinned tree (evaluated first on every run)

WITNESSES = [
    # F6: MeshLine1._adaptive kept the old subdomain indices
    {"cls": "MeshLine1", "p": [[0., 1., 2.]], "t": [[0, 1], [1, 2]], "subdomains": {"a": [0]}, "marked": [0]},
    # F7: MeshTet1._adaptive kept stale subdomains / boundaries (default 5-cell cube)
    {"cls": "MeshTet1", "default": True, "subdomains": {"a": [0]}, "boundaries": "left", "marked": [0]},
    # FC13a: the second-order wrappers dropped the subdomains
    {"cls": "MeshTri2", "default": True, "subdomains": {"a": [0]}, "marked": [0]},
    {"cls": "MeshTet2", "default": True, "subdomains": {"a": [0]}, "marked": [0]},
    # FC13c: valid Delaunay mesh (9 points, 15 cells) for which marking ONE cell needs 144 cells, more than the
    # 8 * nt the work arrays of MeshTet1._adaptive had room for (ValueError on the pinned tree)
    {"cls": "MeshTet1",
     "p": [[0., -1.5, -1., 0., 1.5, .5, -1.5, -1., -1.], [0., 0., -2., .5, 2., -2., -2., 1., 0.],
           [-1.5, 1.5, 1.5, -1.5, -1., 0., 1.5, -1.5, -2.]],
     "t": [[7, 2, 3, 3, 3, 3, 3, 3, 3, 3, 2, 2, 2, 2, 2], [1, 5, 0, 7, 7, 7, 7, 5, 5, 5, 1, 5, 1, 5, 5],
           [0, 1, 8, 8, 0, 1, 1, 1, 0, 1, 0, 0, 8, 1, 8], [8, 4, 4, 4, 8, 4, 0, 0, 4, 4, 8, 8, 6, 0, 6]],
     "subdomains": {"a": [4, 5]}, "marked": [4]},
]


def witness_mesh(w):
    import skfem
    cls = getattr(skfem, w["cls"])
    if w.get("default"):
        base = getattr(skfem, w["cls"].replace("2", "1"))()
        m = cls.from_mesh(base) if w["cls"].endswith("2") else base
    else:
        m = cls(np.array(w["p"], dtype=np.float64), np.array(w["t"], dtype=np.int32))
    if w.get("boundaries") == "left":
        m = m.with_boundaries({"left": lambda x: x[0] == 0})
    if w.get("subdomains"):
        m = m.with_subdomains({k: np.array(v, dtype=np.int32) for k, v in w["subdomains"].items()})
    return m


def witnesses(ctx):
    for w in WITNESSES:
        m = witness_mesh(w)
        if not input_ok(m):
            raise RuntimeError("witness mesh is not a valid input")
        ctx.count("witness")
        ctx.case({"witness": w}, nontrivial=True)
        run_case(ctx, m, w["marked"], {"kind": "witness", "gen": "witness"})
    # needles: a well shaped tetrahedron glued to one of height L; marking the first makes the conforming closure
    # cut the needle many times (one call multiplies the number of vertices by more than 8: the work arrays
    # of the tetrahedral bisection are re-allocated on the way)
    for L in ([128., 1024.] if ctx.tier == "quick" else [16., 128., 512., 1024., 4096.]):
        for apex in ([0.3125, 0.375], [0.5, 0.125]):
            pn = np.array([[0., 0., 0.], [1., 0., 0.], [0., 1., 0.], [.25, .25, -.75], [apex[0], apex[1], L]]).T
            tn = np.array([[0, 1, 2, 3], [0, 1, 2, 4]], dtype=np.int32).T
            import skfem
            mn = skfem.MeshTet1(pn, tn)
            if not input_ok(mn):
                continue
            for marked in ([0], [0, 1]):
                ctx.count("witness:needle")
                ctx.case({"witness": "needle", "L": L, "apex": apex, "marked": marked}, nontrivial=True)
                run_case(ctx, mn, marked, {"kind": "tet", "gen": "needle"}, check_tags=False)
    # the capacity witness: every single cell and the full set
    m = witness_mesh(WITNESSES[-1])
    for marked in [[k] for k in range(m.t.shape[1])] + [list(range(m.t.shape[1]))]:
        ctx.count("witness")
        ctx.case({"witness": "capacity", "marked": marked})
        run_case(ctx, m, marked, {"kind": "witness", "gen": "witness"})


def mesh_from_record(rec):
    import skfem
    cls = getattr(skfem, rec["cls"])
    m = cls(np.array(rec["p"], dtype=np.float64), np.array(rec["t"], dtype=np.int32))
    if rec.get("boundaries"):
        m = m.with_boundaries({k: np.array(v, dtype=np.int32) for k, v in rec["boundaries"].items()})
    if rec.get("subdomains"):
        m = m.with_subdomains({k: np.array(v, dtype=np.int32) for k, v in rec["subdomains"].items()})
    return m


def replay(ctx, rp):
    """re-evaluate a recorded failing input (the mesh the failing step started from)"""
    inp = rp["input"]
    if "mesh" not in inp:
        return run(ctx)
    m = mesh_from_record(inp["mesh"])
    step = inp.get("step", "adaptive")
    ctx.case({"replay": inp["mesh"], "marked": inp.get("marked")})
    run_case(ctx, m, inp.get("marked"), inp.get("info", {}), step=step)


def run(ctx):
    ctx.rule = ("a case is (mesh, marked set) or (mesh, history of adaptive/uniform steps); meshes of MeshLine1, "
                "MeshTri1, MeshTet1, MeshTri2, MeshTet2 (straight) from skv.meshes (Delaunay/tensor/refined, holes, "
                "renumbering, cell permutation, local re-ordering, zigzag strips with maximal closure depth, random "
                "named subdomains/boundaries); marked sets as int32/int64 arrays, lists, unsorted, through "
                "adaptive_theta; ALL subsets of small meshes, random subsets of larger ones, random histories; "
                "distinct = distinct (p, t, marked / history); non-trivial = at least one marked cell / two steps")
    ctx.trusted += ["Lean kernel; axioms propext/Classical.choice/Quot.sound",
                    "models Skv.RA.* hand-written (Model/RefineAdaptive.lean), tied by the exact correspondence ops "
                    "refine.tri / refine.line / refine.tet.step on every run",
                    "Skv.buildEntities (C11) supplies facets/t2f of the sorted mesh inside op refine.tri",
                    "the certificate (bisection forest) is rebuilt by the harness from old and new mesh only and "
                    "checked by the verified checker Skv.RA.checkRefinement (op refine.check)",
                    "search oracle: exact integer arithmetic on dyadic coordinates (no floating point)"]
    ctx.assumptions += ["input meshes are valid, conforming, straight-sided, with every vertex used (checked by the same "
                        "exact oracle before use; rejected otherwise)",
                        "coordinates are dyadic rationals, so midpoints are exact in binary floating point",
                        "marked sets have no repeated entries (a SET of cells)",
                        "termination of the tetrahedral worklist is not proved; a 60 s watchdog reports a hang",
                        "from the exit condition of the worklist to geometric conformity of tetrahedral meshes: "
                        "checked exactly by the search layer, not proved",
                        "triangles: partition/conformity are proved on the reference cell and for the index algebra; "
                        "the transfer to physical cells is the affine map (non-degenerate cells)"]
    if not getattr(ctx, "no_lean", False):
        ctx.prove(["SkfemVerif.Props.C13"], ["SkfemVerif/Props/C13.lean"])
    witnesses(ctx)
    correspondence(ctx)
    if ctx.tier == "quick":
        search(ctx, 0.38, 0.52, 0.66)
    else:
        search(ctx, 0.30, 0.42, 0.55)
    ctx.notes["inputs_rejected_by_precondition"] = REJECTED[0]
    ctx.exhaustive = False
    if ctx.tier == "thorough" and not getattr(ctx, "no_lean", False):
        ctx.leanchecker(["SkfemVerif.Props.C13"])
