"""C01  Assembled matrix, vector and scalar represent the weak form."""
import numpy as np

from .. import meshes, elements, fields
from ..core import exc_kind, qstr, unq, frac


def as_tuple(f):
    return f if isinstance(f, tuple) else (f,)


def qarr(a):
    """(nt, nq) float array -> nested list of "n/d" strings (exact)"""
    return [[qstr(v) for v in row] for row in np.asarray(a, dtype=float).tolist()]


def gen_basis(rng, ctx):
    """returns (ubasis, vbasis, descr) with a random mesh, element(s), basis kind"""
    from skfem import CellBasis, FacetBasis, InteriorFacetBasis
    second = rng.random() < 0.15
    kinds = meshes.SECOND_ORDER if second else meshes.FIRST_ORDER
    while True:
        m, info = meshes.gen_mesh(rng, kinds)
        if m.nelements <= 14:
            break
    base = info["kind"].rstrip("2")
    e, ename = elements.gen_element(rng, base, exclude=("Skeleton",))
    bk = rng.choice(["cell", "cell", "cell-subset", "facet", "facet-subset", "interior0", "interior1"])
    if elements.family(e) == "global" and bk != "cell":
        bk = "cell"        # globally defined elements are evaluated on cells
    if m.nelements < 2 and bk.startswith("interior"):
        bk = "cell"
    if base == "wedge" and bk not in ("cell", "cell-subset"):
        bk = "cell"        # the library offers no facet bases on prisms (no boundary element)
    intorder = rng.choice([1, 2, 3])
    kw = {"intorder": intorder}
    if bk == "cell":
        mk = lambda el: CellBasis(m, el, **kw)
    elif bk == "cell-subset":
        k = rng.randint(1, m.nelements)
        ix = rng.sample(range(m.nelements), k)
        ixa = np.array(ix, dtype=np.int32)
        mk = lambda el: CellBasis(m, el, elements=ixa, **kw)
        info = dict(info, subset=ix)
    elif bk == "facet":
        mk = lambda el: FacetBasis(m, el, **kw)
    elif bk == "facet-subset":
        bf = m.boundary_facets()
        k = rng.randint(1, len(bf))
        ix = sorted(rng.sample([int(f) for f in bf], k))
        rng.shuffle(ix)
        ixa = np.array(ix, dtype=np.int32)
        mk = lambda el: FacetBasis(m, el, facets=ixa, **kw)
        info = dict(info, facets=ix)
    else:
        side = int(bk[-1])
        inter = [int(f) for f in np.nonzero(m.f2t[1] >= 0)[0]]
        if not inter:
            mk = lambda el: CellBasis(m, el, **kw)
            bk = "cell"
        else:
            if rng.random() < 0.5:
                ix = sorted(rng.sample(inter, rng.randint(1, len(inter))))
                ixa = np.array(ix, dtype=np.int32)
                mk = lambda el: InteriorFacetBasis(m, el, side=side, facets=ixa, **kw)
            else:
                mk = lambda el: InteriorFacetBasis(m, el, side=side, **kw)
    ub = mk(e)
    vname = ename
    if rng.random() < 0.4:
        e2, vname = elements.gen_element(rng, base, exclude=("Skeleton",))
        if elements.family(e2) == "global" and bk != "cell":
            e2, vname = e, ename
        vb = mk(e2)
    else:
        vb = ub
    descr = {"mesh": info, "basis": bk, "trial": ename, "test": vname, "intorder": intorder}
    return m, ub, vb, descr


def w_components(ub, kwargs_norm):
    """list of (label, getter(wdict) -> array (nt,nq) or scalar)"""
    out = [("1", lambda w: 1.0)]
    dp = ub.default_parameters()
    for i in range(np.asarray(dp["x"]).shape[0]):
        out.append((f"x{i}", lambda w, i=i: np.asarray(w["x"])[i]))
    out.append(("h", lambda w: np.asarray(w["h"])))
    if "n" in dp:
        for i in range(np.asarray(dp["n"]).shape[0]):
            out.append((f"n{i}", lambda w, i=i: np.asarray(w["n"])[i]))
    for key, val in kwargs_norm.items():
        if isinstance(val, (int, float)):
            out.append((key, lambda w, key=key: w[key]))
        elif isinstance(val, tuple) or hasattr(val, "astuple") and not isinstance(val, tuple):
            flds = as_tuple(val)
            for lab, tacc in fields.tuple_components(flds, maxorder=1):
                out.append((f"{key}.{lab}", lambda w, key=key, tacc=tacc: fields.get_tuple_comp(as_tuple(w[key]), tacc)))
    return out


def make_forms(terms, ucomp, vcomp, wcomp, nu):
    def bil(*args):
        w = args[-1]
        us, vs = args[:nu], args[nu:-1]
        tot = 0.
        for (c, uc, vc, wc) in terms:
            tot = tot + c * fields.get_tuple_comp(us, ucomp[uc][1]) * fields.get_tuple_comp(vs, vcomp[vc][1]) \
                * wcomp[wc][1](w)
        return tot

    def lin(*args):
        w = args[-1]
        vs = args[:-1]
        tot = 0.
        for (c, uc, vc, wc) in terms:
            tot = tot + c * fields.get_tuple_comp(vs, vcomp[vc][1]) * wcomp[wc][1](w)
        return tot

    def fun(w):
        tot = 0.
        for (c, uc, vc, wc) in terms:
            tot = tot + c * wcomp[uc % len(wcomp)][1](w) * wcomp[vc % len(wcomp)][1](w) * wcomp[wc][1](w) \
                + 0. * np.asarray(w["h"])
        return tot
    return bil, lin, fun


def basis_data(b, comps):
    """[j][c][k][q] exact"""
    return [[qarr(fields.get_tuple_comp(b.basis[j], acc)) for (_, acc) in comps] for j in range(b.Nbfun)]


def close(model, impl, scale=None):
    model = np.asarray(model, dtype=float)
    impl = np.asarray(impl)
    if model.shape != impl.shape:
        return False
    s = scale if scale is not None else max(1.0, float(np.abs(model).max()) if model.size else 1.0)
    return bool(np.all(np.abs(model - impl) <= 1e-9 * s))


def facet_side_oracle(ctx):
    """which neighbouring cell a facet basis lives on: with the piecewise constant element (one DOF per cell)
    the interpolated trace of the vector x = (DOF of cell k -> value k) IS the cell number.  Plain facet arrays:
    side s uses f2t[s]; oriented facet sets (OrientedBoundary, ori = 1 flips): side 0 uses f2t[ori], side 1
    the other neighbour.  The functional / linear / bilinear forms on that basis inherit it."""
    import skfem
    from skfem import FacetBasis, InteriorFacetBasis, Basis, Functional
    from skfem.generic_utils import OrientedBoundary
    rng = ctx.rng
    P0 = {"line": "ElementLineP0", "tri": "ElementTriP0", "quad": "ElementQuad0", "tet": "ElementTetP0",
          "hex": "ElementHex0"}
    for rep in range(ctx.scale(24, 200)):
        kind = rng.choice(list(P0))
        m, info = meshes.gen_first_order(rng, kind)
        if m.nelements < 2 or m.nelements > 40:
            continue
        e = getattr(skfem, P0[kind])()
        cb = Basis(m, e)
        x = np.zeros(cb.N)
        x[cb.element_dofs[0]] = np.arange(m.nelements, dtype=float)
        inter = np.nonzero(m.f2t[1] >= 0)[0]
        if len(inter) == 0:
            continue
        F = np.array(sorted(rng.sample([int(f) for f in inter], rng.randint(1, len(inter)))), dtype=np.int64)
        ori = np.array([rng.randint(0, 1) for _ in F])
        how = rng.choice(["oriented", "oriented", "facets_around", "plain", "interior-basis"])
        side = rng.randint(0, 1)
        try:
            if how == "plain":
                fb = FacetBasis(m, e, facets=F, side=side)
                want = m.f2t[side, F]
            elif how == "interior-basis":
                fb = InteriorFacetBasis(m, e, facets=F, side=side)
                want = m.f2t[side, F]
            elif how == "facets_around":
                cells = sorted(rng.sample(range(m.nelements), rng.randint(1, m.nelements - 1)))
                ob = m.facets_around(np.array(cells, dtype=np.int64))
                if len(ob) == 0:
                    continue
                F, ori = np.asarray(ob), np.asarray(ob.ori)
                if (m.f2t[1, F] < 0).any() and side == 1:
                    side = 0
                fb = FacetBasis(m, e, facets=ob, side=side)
                want = m.f2t[ori, F] if side == 0 else m.f2t[1 - ori, F]
                # by construction side 0 is the inside of the cell set
                if side == 0 and not set(int(k) for k in want) <= set(cells):
                    ctx.violation("facets_around(cells): side 0 of the oriented set is not inside the cell set",
                                  {"mesh": meshes.mesh_descr(m), "cells": cells}, {"what": "facet-side", "how": how})
            else:
                ob = OrientedBoundary(F, ori)
                fb = FacetBasis(m, e, facets=ob, side=side)
                want = m.f2t[ori, F] if side == 0 else m.f2t[1 - ori, F]
            got = np.asarray(fb.interpolate(x).value)
            ctx.case({"facet-side": how, "side": side, "t": m.t.tolist(), "F": F.tolist(), "ori": ori.tolist()},
                     nontrivial=True)
            ctx.count("facet-side-oracle:" + how)
            ok = got.shape[0] == len(F) and np.array_equal(got, np.broadcast_to(want[:, None].astype(float), got.shape))
            if ok:
                # ... and the forms see the same function
                meas = Functional(lambda w: 1. + 0. * w.x[0]).elemental(fb)
                val = Functional(lambda w: w["u"]).assemble(fb, u=x)
                ok = abs(val - float((meas * want).sum())) <= 1e-11 * max(1.0, abs(val))
            if not ok:
                ctx.violation("a facet basis evaluates the discrete function in the wrong neighbouring cell",
                              {"mesh": meshes.mesh_descr(m), "how": how, "side": side, "facets": F.tolist(),
                               "ori": ori.tolist(), "cells_seen": np.asarray(got)[:, 0].tolist()
                               if got.ndim == 2 and got.shape[0] == len(F) else None, "cells_expected": want.tolist()},
                              {"what": "facet-side", "how": how, "side": side})
        except Exception as ex:
            ctx.violation("facet basis on an (oriented) facet set raised " + exc_kind(ex),
                          {"mesh": meshes.mesh_descr(m), "how": how, "side": side, "err": repr(ex)},
                          {"what": "raise-basis"})


def run(ctx):
    from skfem import BilinearForm, LinearForm, Functional
    from skfem.assembly.form.form import Form, FormExtraParams
    ctx.rule = ("random (mesh, element(s), basis kind, integrand): all ten mesh classes; every exported element and "
                "Vector/DG/Composite wrappers; CellBasis / cell subset / FacetBasis / facet subset / "
                "InteriorFacetBasis side 0 and 1; equal or different trial/test spaces; integrands drawn from the "
                "grammar sum coef*u[comp]*v[comp]*w[comp] (value/grad/div/curl/hess components; w = 1, x, h, n, "
                "interpolated DOF vector, scalar, pre-interpolated array); real and complex; distinct = the whole "
                "case description; non-trivial = >= 2 cells and >= 2 local functions")
    ctx.trusted += ["Lean kernel; axioms propext/Classical.choice/Quot.sound",
                    "model Skv.bilinearTriplets/linearPairs/functionalValue/interp hand-written, tied by exact "
                    "correspondence ops asm.* on the implementation's own element_dofs/basis/dx",
                    "the Python integrand and the model's Term list are built from the same term tuples",
                    "NumPy sum(axis=1), scipy coo_matrix duplicate summation"]
    ctx.assumptions += ["that basis.basis / dx hold the right numbers is C09/C10/C02, not C01",
                        "floating-point rounding: model computes exactly on the doubles, compared to 1e-9 relative"]
    if not getattr(ctx, "no_lean", False):
        ctx.prove(["SkfemVerif.Props.C01"], ["SkfemVerif/Props/C01.lean"])
    rng = ctx.rng
    facet_side_oracle(ctx)
    n = ctx.scale(200, 1500)
    reqs, post = [], []
    for it in range(n):
        if ctx.time_left(0.6) < 0:
            break
        try:
            m, ub, vb, descr = gen_basis(rng, ctx)
        except Exception as ex:
            ctx.violation("basis construction raised " + exc_kind(ex), {"err": repr(ex)}, {"what": "raise-basis"})
            continue
        ctx.count("basis:" + descr["basis"])
        ctx.count("mesh:" + descr["mesh"]["kind"])
        ctx.count("trial!=test" if vb is not ub else "trial==test")
        nt = ub.nelems
        nq = ub.X.shape[-1] if ub.X.ndim else 1
        try:
            ucomp = fields.tuple_components(as_tuple(ub.basis[0]), maxorder=4)
            vcomp = fields.tuple_components(as_tuple(vb.basis[0]), maxorder=4)
            # extra parameters
            kwargs = {}
            xvec = np.array([rng.randint(-4, 4) / 2 for _ in range(ub.N)])
            if rng.random() < 0.6:
                kwargs["f"] = xvec
            if rng.random() < 0.5:
                kwargs["s"] = rng.randint(-3, 3) / 2
            if rng.random() < 0.4:
                kwargs["g"] = np.array([[rng.randint(-4, 4) / 4 for _ in range(ub.dx.shape[1])] for _ in range(nt)])
            if rng.random() < 0.2:
                # a user parameter with the NAME of a default one (documented: the user's value replaces the
                # default in all three form types)
                kwargs["h"] = rng.choice([0.25, -1.5]) if rng.random() < 0.5 else \
                    np.array([[rng.randint(1, 8) / 4 for _ in range(ub.dx.shape[1])] for _ in range(nt)])
                ctx.count("user-parameter-named-h")
            knorm = Form._normalize_asm_kwargs(dict(kwargs), ub)
            knorm_listed = {k: (v if isinstance(v, (int, float)) else v) for k, v in knorm.items()}
            wcomp = w_components(ub, knorm_listed)
            wd = FormExtraParams({**ub.default_parameters(), **knorm})
            nterms = rng.randint(1, 3)
            cplx = rng.random() < 0.15
            terms = []
            for _ in range(nterms):
                c = rng.choice([1, -1, 2, 0.5, -1.5, 3])
                terms.append((c, rng.randrange(len(ucomp)), rng.randrange(len(vcomp)), rng.randrange(len(wcomp))))
            bil, lin, fun = make_forms(terms, ucomp, vcomp, wcomp, len(as_tuple(ub.basis[0])))
        except Exception as ex:
            ctx.violation("parameter normalisation raised " + exc_kind(ex), {"case": descr, "err": repr(ex)},
                          {"what": "raise-normalize"})
            continue
        descr2 = dict(descr, terms=[[t[0], ucomp[t[1]][0], vcomp[t[2]][0], wcomp[t[3]][0]] for t in terms],
                      kwargs=sorted(kwargs), t=m.t.tolist())
        ctx.case(descr2, nontrivial=nt >= 2 and ub.Nbfun >= 2, sample=descr2 if it < 3 else None)
        for t in terms:
            ctx.count("ucomp:" + ucomp[t[1]][0].split(".")[-1].split("[")[0])
            ctx.count("w:" + wcomp[t[3]][0].split(".")[0].rstrip("0123456789"))
        dtype = np.complex128 if cplx else np.float64
        # ---------------- implementation
        try:
            ind, data, shape, lshape = BilinearForm(bil, dtype=dtype)._assemble(ub, vb, **dict(kwargs))
            A = BilinearForm(bil, dtype=dtype).assemble(ub, vb, **dict(kwargs))
            if rng.random() < 0.35:
                # the threaded kernel is part of the statement ("serial and threaded kernels")
                nthr = rng.choice([1, 2, 3, 5])
                tind, tdata, tshape, _ = BilinearForm(bil, dtype=dtype, nthreads=nthr)._assemble(ub, vb, **dict(kwargs))
                ctx.count("threaded-kernel")
                if not (np.array_equal(tind, ind) and tshape == shape and
                        np.allclose(tdata, data, rtol=1e-13, atol=1e-13 * max(1.0, float(np.abs(data).max())
                                                                              if data.size else 1.0))):
                    ctx.violation("threaded assembly differs from serial assembly",
                                  {"case": descr2, "nthreads": nthr}, {"what": "threaded", "basis": descr["basis"]})
            if vb is ub:
                lind, ldata, lshp, _ = LinearForm(lin, dtype=dtype)._assemble(vb, **dict(kwargs))
                bvec = LinearForm(lin, dtype=dtype).assemble(vb, **dict(kwargs))
            sval = Functional(fun, dtype=dtype).assemble(ub, **dict(kwargs))
        except Exception as ex:
            ctx.violation("assembly raised " + exc_kind(ex), {"case": descr2, "err": repr(ex)},
                          {"what": "raise-assemble"})
            continue
        # ---------------- the ORDER in which the cells / facets of a subset are listed does not matter, a repeated cell
        # counts twice, and an empty selection integrates nothing (independent of the library's own per-cell
        # table, which the model is fed with)
        try:
            sub = descr["mesh"].get("subset") if isinstance(descr["mesh"], dict) else None
            if descr["basis"] == "cell-subset" and sub is not None:
                from skfem import CellBasis
                io = descr["intorder"]
                srt = np.array(sorted(sub), dtype=np.int64)
                us = CellBasis(m, ub.elem, elements=srt, intorder=io)
                vs = us if vb is ub else CellBasis(m, vb.elem, elements=srt, intorder=io)
                if not any(isinstance(v, np.ndarray) and v.ndim == 2 for v in kwargs.values()):
                    # (per-cell parameter arrays are tied to the listing order: not comparable)
                    As = BilinearForm(bil, dtype=dtype).assemble(us, vs, **dict(kwargs))
                    ctx.count("subset-order-invariance")
                    d_ = float(np.abs((A - As)).max()) if A.shape == As.shape else float("inf")
                    if d_ > 1e-12 * max(1.0, float(np.abs(As).max())):
                        ctx.violation("the matrix over a cell subset depends on the order in which the cells are listed",
                                      {"case": descr2, "listed": list(sub), "difference": d_},
                                      {"what": "subset-order", "basis": "cell"})
                if len(sub) >= 2:
                    # asm over a LIST of bases (the subset split in two parts): the sum of the separate assemblies, for
                    # all three form types
                    from skfem import asm
                    cut = rng.randint(1, len(sub) - 1)
                    parts = [CellBasis(m, ub.elem, elements=np.array(sorted(sub)[:cut], dtype=np.int64), intorder=io),
                             CellBasis(m, ub.elem, elements=np.array(sorted(sub)[cut:], dtype=np.int64), intorder=io)]
                    gb = BilinearForm(fields.generic_bilinear())
                    fn_ = Functional(lambda w: 1. + np.asarray(w["x"])[0] + 0. * np.asarray(w["h"]))
                    ln_ = LinearForm(lambda *a: fields.generic_bilinear()(*a[:-1], *a[:-1], a[-1]) * 0. + sum(
                        np.asarray(f).reshape((-1,) + np.asarray(f).shape[-2:]).sum(0) for f in a[:-1]))
                    ctx.count("asm-over-list-of-bases")
                    for lab, F_ in (("functional", fn_), ("linear form", ln_), ("bilinear form", gb)):
                        whole_ = asm(F_, parts)
                        sep = F_.assemble(parts[0]) + F_.assemble(parts[1])
                        d_ = float(np.abs(whole_ - sep).max()) if lab != "functional" else abs(float(whole_) - float(sep))
                        sc_ = float(np.abs(sep).max()) if lab != "functional" else abs(float(sep))
                        if d_ > 1e-12 * max(1.0, sc_):
                            ctx.violation("asm(" + lab + ", [basis over part 1, basis over part 2]) is not the sum of the two "
                                          "assemblies", {"case": descr2, "parts": [sorted(sub)[:cut], sorted(sub)[cut:]],
                                                         "difference": d_}, {"what": "asm-list", "form": lab})
                if len(sub) >= 1 and rng.random() < 0.5:
                    # the full-length variants: every cell once in another order; one cell twice
                    perm = list(range(m.nelements))
                    rng.shuffle(perm)
                    if rng.random() < 0.5 and m.nelements >= 3:
                        # first cell first, last cell last, the others in any order
                        perm = [0] + [c for c in perm if c not in (0, m.nelements - 1)] + [m.nelements - 1]
                    whole = CellBasis(m, ub.elem, intorder=io)
                    permd = CellBasis(m, ub.elem, elements=np.array(perm, dtype=np.int64), intorder=io)
                    mass = BilinearForm(fields.generic_bilinear())
                    Aw, Ap = mass.assemble(whole), mass.assemble(permd)
                    ctx.count("all-cells-permuted")
                    if float(np.abs(Aw - Ap).max()) > 1e-12 * max(1.0, float(np.abs(Aw).max())):
                        ctx.violation("a basis over ALL cells listed in another order assembles another matrix than "
                                      "the basis over the whole mesh", {"case": descr2, "listed": perm},
                                      {"what": "subset-order", "basis": "all-cells"})
                    twice = sorted(sub) + [sorted(sub)[0]]
                    At = mass.assemble(CellBasis(m, ub.elem, elements=np.array(twice, dtype=np.int64), intorder=io))
                    A1 = mass.assemble(CellBasis(m, ub.elem, elements=np.array(sorted(sub), dtype=np.int64), intorder=io))
                    A0 = mass.assemble(CellBasis(m, ub.elem, elements=np.array(sorted(sub)[:1], dtype=np.int64),
                                                 intorder=io))
                    if float(np.abs(At - A1 - A0).max()) > 1e-12 * max(1.0, float(np.abs(A1).max())):
                        ctx.violation("a cell listed twice does not contribute twice", {"case": descr2, "listed": twice},
                                      {"what": "subset-order", "basis": "repeated"})
                    empty = CellBasis(m, ub.elem, elements=np.array([], dtype=np.int64), intorder=io)
                    meas = Functional(lambda w: 1. + 0. * w.x[0]).elemental(empty)
                    ctx.count("empty-cell-selection")
                    if int(empty.nelems) != 0 or np.asarray(meas).size != 0:
                        ctx.violation("a basis over an EMPTY cell selection is not empty (it integrates over "
                                      f"{int(empty.nelems)} cells)", {"case": descr2, "nelems": int(empty.nelems)},
                                      {"what": "empty-selection", "basis": "cell"})
        except Exception as ex:
            ctx.violation("subset order / empty selection evaluation raised " + exc_kind(ex),
                          {"case": descr2, "err": repr(ex)}, {"what": "raise-consistency"})
        # ---------------- a coefficient vector and its pre-interpolated field enter identically (complex too)
        try:
            if "f" in kwargs or rng.random() < 0.3:
                cvec = xvec + (1j * np.array([rng.randint(-4, 4) / 2 for _ in range(ub.N)]) if cplx else 0)
                kv = dict(kwargs, f=cvec)
                kf = dict(kwargs, f=ub.interpolate(cvec))

                def pform(u_, v_, w):
                    return u_ * v_ * w["f"] if not isinstance(u_, tuple) else 0.
                fr = fields.tuple_components(as_tuple(ub.interpolate(cvec)), maxorder=0)

                def gfun(w):
                    tot = 0. * np.asarray(w["h"])
                    for (lab, tacc) in fr:
                        tot = tot + fields.get_tuple_comp(as_tuple(w["f"]), tacc) * (1. + np.asarray(w["x"])[0])
                    return tot
                dt = np.complex128 if cplx else np.float64
                s_vec = Functional(gfun, dtype=dt).assemble(ub, **kv)
                s_fld = Functional(gfun, dtype=dt).assemble(ub, **kf)
                ctx.count("vector-vs-field-parameter" + (":complex" if cplx else ""))
                if abs(s_vec - s_fld) > 1e-12 * max(1.0, abs(s_fld)):
                    ctx.violation("a coefficient vector passed as parameter gives another functional than its "
                                  "pre-interpolated field",
                                  {"case": descr2, "vector": [complex(c) for c in cvec.tolist()],
                                   "with_vector": complex(s_vec), "with_field": complex(s_fld)},
                                  {"what": "vector-vs-field", "complex": bool(cplx)})
        except Exception as ex:
            ctx.violation("parameter equivalence evaluation raised " + exc_kind(ex), {"case": descr2, "err": repr(ex)},
                          {"what": "raise-consistency"})
        # ---------------- search: the statement on the implementation alone
        try:
            u = np.array([rng.randint(-4, 4) / 2 for _ in range(ub.N)])
            v = np.array([rng.randint(-4, 4) / 2 for _ in range(vb.N)])
            if cplx:
                u = u + 1j * np.array([rng.randint(-2, 2) / 2 for _ in range(ub.N)])
            if A.shape != (vb.N, ub.N):
                ctx.violation("matrix shape is not (N_test, N_trial)", {"case": descr2, "shape": list(A.shape)},
                              {"what": "shape"})
            uh = as_tuple(ub.interpolate(u))
            vh = as_tuple(vb.interpolate(v))

            def fun_uv(w):
                return bil(*uh, *vh, w)
            J = Functional(fun_uv, dtype=np.complex128 if cplx else np.float64).assemble(ub, **dict(kwargs))
            lhs = v @ (A @ u)
            sc = max(1.0, abs(J), float(np.abs(A).sum()) * 4)
            if abs(lhs - J) > 1e-9 * sc:
                ctx.violation("v^T A u differs from the functional of the same integrand on the interpolated "
                              "coefficient vectors", {"case": descr2, "vAu": complex(lhs), "J": complex(J),
                                                      "u": u.tolist(), "v": v.tolist()},
                              {"what": "bilinear-vs-functional", "basis": descr["basis"]})
            if vb is ub:
                def fun_v(w):
                    return lin(*vh, w)
                Jl = Functional(fun_v, dtype=np.float64).assemble(ub, **dict(kwargs))
                lhs = bvec @ v
                sc = max(1.0, abs(Jl), float(np.abs(bvec).sum()) * 4)
                if abs(lhs - Jl) > 1e-9 * sc:
                    ctx.violation("b^T v differs from the functional of the same integrand on the interpolated "
                                  "coefficient vector", {"case": descr2, "bv": complex(lhs), "J": complex(Jl)},
                                  {"what": "linear-vs-functional", "basis": descr["basis"]})
            ctx.count("three-forms-checks")
        except Exception as ex:
            ctx.violation("consistency evaluation raised " + exc_kind(ex), {"case": descr2, "err": repr(ex)},
                          {"what": "raise-consistency"})
        # ---------------- correspondence requests (real data only; complex covered by the search)
        if cplx:
            continue
        size = ub.Nbfun * len(ucomp) * nt * nq
        if size > 6000 or ub.Nbfun * vb.Nbfun * nt > 4000:
            ctx.count("too-large-for-model")
            continue
        try:
            wdata = []
            for lab, g in wcomp:
                a = g(wd)
                a = np.broadcast_to(np.asarray(a, dtype=float), ub.dx.shape)
                wdata.append(qarr(a))
            tj = [[qstr(t[0]), t[1], t[2], t[3]] for t in terms]
            common = {"nt": nt, "nq": int(ub.dx.shape[1]), "w": wdata, "dx": qarr(ub.dx), "terms": tj}
            ubd = basis_data(ub, ucomp)
            vbd = basis_data(vb, vcomp) if vb is not ub else ubd
            reqs.append(dict(common, op="asm.bilinear", Nu=ub.Nbfun, Nv=vb.Nbfun, ub=ubd, vb=vbd,
                             udofs=ub.element_dofs.tolist(), vdofs=vb.element_dofs.tolist()))
            post.append(("bilinear", descr2, (ind.tolist(), data, shape, lshape, (vb.N, ub.N), (vb.Nbfun, ub.Nbfun))))
            if vb is ub:
                reqs.append(dict(common, op="asm.linear", Nv=vb.Nbfun, vb=vbd, vdofs=vb.element_dofs.tolist()))
                post.append(("linear", descr2, (lind.tolist(), ldata)))
            tjf = [[qstr(t[0]), t[1] % len(wcomp), t[2] % len(wcomp), t[3]] for t in terms]
            reqs.append(dict(common, op="asm.functional", terms=tjf))
            post.append(("functional", descr2, float(sval)))
            # interpolation of the DOF vector parameter (independent path)
            if "f" in kwargs:
                fc = fields.tuple_components(as_tuple(ub.basis[0]), maxorder=1)
                reqs.append({"op": "asm.interp", "Nbfun": ub.Nbfun, "nt": nt, "nq": int(ub.dx.shape[1]),
                             "ncomp": len(fc), "basis": basis_data(ub, fc), "x": [qstr(t) for t in xvec.tolist()],
                             "dofs": ub.element_dofs.tolist()})
                fh = as_tuple(ub.interpolate(xvec))
                post.append(("interp", descr2, [np.asarray(fields.get_tuple_comp(fh, acc), dtype=float)
                                                for (_, acc) in fc]))
        except Exception as ex:
            ctx.violation("reading the basis data raised " + exc_kind(ex), {"case": descr2, "err": repr(ex)},
                          {"what": "raise-basisdata"})
    if not ctx.driver.available():
        ctx.broken.append({"kind": "driver-missing"})
        return
    outs = ctx.driver.run(reqs) if reqs else []
    for (tag, descr, impl), out in zip(post, outs):
        if isinstance(out, dict) and "error" in out:
            ctx.corr("asm." + tag, False, descr, out, None)
            continue
        if tag == "bilinear":
            ind, data, shape, lshape, wshape, wl = impl
            ok = (out["rows"] == ind[0] and out["cols"] == ind[1] and tuple(shape) == wshape
                  and tuple(lshape) == wl and close([float(v) for v in unq(out["data"])], data))
            ctx.corr("asm.bilinear", ok, descr, {"rows": out["rows"][:50], "cols": out["cols"][:50]},
                     {"rows": ind[0][:50], "cols": ind[1][:50]})
        elif tag == "linear":
            ind, data = impl
            ok = out["rows"] == ind[0] and close([float(v) for v in unq(out["data"])], data)
            ctx.corr("asm.linear", ok, descr, out["rows"][:50], ind[0][:50])
        elif tag == "functional":
            mv = float(unq(out))
            ctx.corr("asm.functional", abs(mv - impl) <= 1e-9 * max(1.0, abs(mv)), descr, mv, impl)
        elif tag == "interp":
            mod = unq(out)
            ok = len(mod) == len(impl)
            if ok:
                for c in range(len(impl)):
                    if not close([[float(v) for v in row] for row in mod[c]], impl[c]):
                        ok = False
            ctx.corr("basis.interpolate", ok, descr, "model interp", "implementation interp")
    if ctx.tier == "thorough" and not getattr(ctx, "no_lean", False):
        ctx.leanchecker(["SkfemVerif.Props.C01"])
