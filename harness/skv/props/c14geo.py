"""C14 helpers: mesh generators restricted to CONVEX cells (graded, anisotropic, sheared, non-convex
domains), query-point generators and the exact (integer arithmetic) containment oracle."""
from __future__ import annotations

import itertools

import numpy as np

from .. import meshes


# --------------------------------------------------------------------------
# exact arithmetic on dyadic floats

def scale_bits(*arrays):
    """smallest s such that every entry times 2**s is an integer (floats are dyadic rationals)"""
    s = 0
    for a in arrays:
        for v in np.asarray(a, dtype=np.float64).ravel().tolist():
            if v == 0.0:
                continue
            num, den = float(v).as_integer_ratio()
            s = max(s, den.bit_length() - 1)
    return s


def to_int(v, s):
    num, den = float(v).as_integer_ratio()
    sh = s - (den.bit_length() - 1)
    if sh < 0:
        raise ValueError("not representable")
    return num << sh


def int_points(p, s):
    """columns of p as tuples of python ints (coordinates times 2**s)"""
    p = np.asarray(p, dtype=np.float64)
    return [tuple(to_int(p[i, j], s) for i in range(p.shape[0])) for j in range(p.shape[1])]


def _sub(a, b):
    return tuple(x - y for x, y in zip(a, b))


def _dot(a, b):
    return sum(x * y for x, y in zip(a, b))


def _cross(a, b):
    return (a[1] * b[2] - a[2] * b[1], a[2] * b[0] - a[0] * b[2], a[0] * b[1] - a[1] * b[0])


def supporting_planes(verts):
    """The convex hull of `verts` (integer points, dim 1..3, full-dimensional) as a list of
    half-spaces (n, c): x is in the hull iff n.x >= c for all of them.  Enumerates every
    d-subset of the vertices spanning a hyperplane and keeps those with all vertices on one side.
    Independent of the library's facet tables."""
    d = len(verts[0])
    out = []
    seen = set()
    if d == 1:
        xs = [v[0] for v in verts]
        return [((1,), min(xs)), ((-1,), -max(xs))]
    for sub in itertools.combinations(range(len(verts)), d):
        a = verts[sub[0]]
        if d == 2:
            e = _sub(verts[sub[1]], a)
            n = (-e[1], e[0])
        else:
            n = _cross(_sub(verts[sub[1]], a), _sub(verts[sub[2]], a))
        if all(c == 0 for c in n):
            continue
        c0 = _dot(n, a)
        sg = [_dot(n, v) - c0 for v in verts]
        if all(t >= 0 for t in sg):
            pass
        elif all(t <= 0 for t in sg):
            n = tuple(-c for c in n)
            c0 = -c0
        else:
            continue
        # normalise to make duplicates comparable
        from math import gcd
        g = 0
        for c in n:
            g = gcd(g, abs(c))
        g = gcd(g, abs(c0)) or 1
        key = (tuple(c // g for c in n), c0 // g)
        if key not in seen:
            seen.add(key)
            out.append(key)
    return out


def is_vertex_of_hull(verts, planes):
    """every given vertex must be an extreme point (lies on >= d supporting planes): convex cell"""
    d = len(verts[0])
    for v in verts:
        on = sum(1 for (n, c) in planes if _dot(n, v) == c)
        if on < d:
            return False
    return True


def quad_convex(v):
    """strictly convex quadrilateral given in cyclic order"""
    sg = []
    for i in range(4):
        a, b, c = v[i], v[(i + 1) % 4], v[(i + 2) % 4]
        e1, e2 = _sub(b, a), _sub(c, b)
        sg.append(e1[0] * e2[1] - e1[1] * e2[0])
    return all(t > 0 for t in sg) or all(t < 0 for t in sg)


def coplanar(pts):
    a = pts[0]
    n = None
    for i in range(1, len(pts)):
        for j in range(i + 1, len(pts)):
            c = _cross(_sub(pts[i], a), _sub(pts[j], a))
            if any(c):
                n = c
                break
        if n:
            break
    if n is None:
        return True
    c0 = _dot(n, a)
    return all(_dot(n, q) == c0 for q in pts)


class Geometry:
    """exact description of a first-order mesh with convex, planar-faced cells"""

    def __init__(self, m, extra_points=()):
        self.m = m
        self.dim = m.p.shape[0]
        self.nt = m.t.shape[1]
        self.s = scale_bits(m.p, *extra_points)
        self.P = int_points(m.p, self.s)
        self.cells = [[self.P[v] for v in m.t[:, k]] for k in range(self.nt)]
        self.planes = [supporting_planes(c) for c in self.cells]
        self.bbox = [(min(v[i] for v in self.P), max(v[i] for v in self.P)) for i in range(self.dim)]

    def convex_ok(self):
        """all cells are non-degenerate convex polytopes with the expected vertices and planar faces"""
        m = self.m
        for k, (c, pl) in enumerate(zip(self.cells, self.planes)):
            if len(set(c)) != len(c):
                return False
            if len(pl) < self.dim + 1:
                return False
            if not is_vertex_of_hull(c, pl):
                return False
            if type(m).__name__ == "MeshQuad1" and not quad_convex(c):
                return False
        if self.dim == 3 and type(m).__name__ in ("MeshHex1", "MeshWedge1"):
            # planar faces: every facet's vertices coplanar
            for f in range(m.facets.shape[1]):
                ids = list(dict.fromkeys(int(v) for v in m.facets[:, f]))
                if len(ids) == 4 and not coplanar([self.P[v] for v in ids]):
                    return False
            # the number of supporting planes must be the number of faces (no extra hull faces)
            want = 6 if type(m).__name__ == "MeshHex1" else 5
            if any(len(pl) != want for pl in self.planes):
                return False
        return True

    def ipoint(self, x):
        return tuple(to_int(v, self.s) for v in x)

    def contains(self, k, xi):
        return all(_dot(n, xi) >= c for (n, c) in self.planes[k])

    def strictly_inside(self, k, xi):
        return all(_dot(n, xi) > c for (n, c) in self.planes[k])

    def cells_containing(self, xi):
        return [k for k in range(self.nt) if self.contains(k, xi)]

    def margin(self, k, xi):
        """smallest normalised slack of x w.r.t. the half-spaces of cell k, as a float relative to the
        cell's extent along the normal (negative: outside by that fraction)"""
        worst = None
        for (n, c) in self.planes[k]:
            ext = max(_dot(n, v) for v in self.cells[k]) - c
            val = (_dot(n, xi) - c) / ext if ext else 0.0
            worst = val if worst is None else min(worst, val)
        return worst


# --------------------------------------------------------------------------
# meshes

def _dy(rng, lo, hi, bits):
    s = 1 << bits
    return rng.randint(int(lo * s), int(hi * s)) / s


def graded_axis(rng, n):
    """geometrically graded breakpoints 0, 2^-n, ..., 1/2, 1 (possibly mirrored / shifted)"""
    x = [0.0] + [2.0 ** (-(n - 1 - i)) for i in range(n)]
    x = np.array(x)
    if rng.random() < 0.5:
        x = 1.0 - x[::-1]
    return x + _dy(rng, -1, 1, 2)


def pick_axis(rng, n):
    if rng.random() < 0.4:
        return graded_axis(rng, n + rng.randint(0, 2))
    return meshes.rand_axis(rng, n)


def affine_dyadic(rng, dim, aniso=True, shear=True):
    """random invertible dyadic matrix: anisotropic scaling times a shear"""
    A = np.eye(dim)
    if aniso:
        for i in range(dim):
            A[i, i] = 2.0 ** rng.choice([-5, -3, -1, 0, 0, 1, 3])
    if shear and dim > 1:
        S = np.eye(dim)
        for i in range(dim):
            for j in range(dim):
                if i != j and rng.random() < 0.5:
                    S[i, j] = rng.randint(-6, 6) / 4
        if abs(np.linalg.det(S)) < 0.2:
            S = np.eye(dim)
            S[0, 1] = rng.randint(-6, 6) / 4
        A = S @ A
    return A


def _group_columns(p, axes):
    g = {}
    for v in range(p.shape[1]):
        g.setdefault(tuple(p[a, v] for a in axes), []).append(v)
    return g


def c14_base(rng, kind):
    """(p, t, info) of a first-order mesh with convex cells; the generators of skv.meshes plus
    graded axes, general planar-faced hexahedra and prisms"""
    from skfem import MeshTri1, MeshQuad1, MeshTet1, MeshHex1, MeshLine1
    info = {}
    r = rng.random()
    if kind == "line":
        n = rng.randint(1, 8)
        x = pick_axis(rng, n)
        return x[None, :].copy(), np.vstack((np.arange(n), np.arange(1, n + 1))), {"gen": "axis"}
    if kind in ("tri", "tet") and r < 0.25:
        return cluster_mesh(rng, kind)
    if kind in ("tri", "tet") and r < 0.65:
        p, t, info = meshes.base_mesh(rng, kind)
        return p, t, info
    if kind == "tri":
        m = MeshTri1.init_tensor(pick_axis(rng, rng.randint(1, 4)), pick_axis(rng, rng.randint(1, 4)))
        return m.p.copy(), m.t.astype(np.int64), {"gen": "graded-tensor"}
    if kind == "tet":
        m = MeshTet1.init_tensor(pick_axis(rng, rng.randint(1, 2)), pick_axis(rng, rng.randint(1, 2)),
                                 pick_axis(rng, rng.randint(1, 2)))
        return m.p.copy(), m.t.astype(np.int64), {"gen": "graded-tensor"}
    if kind == "quad":
        m = MeshQuad1.init_tensor(pick_axis(rng, rng.randint(1, 4)), pick_axis(rng, rng.randint(1, 4)))
        p, t = m.p.copy(), m.t.astype(np.int64)
        info["gen"] = "tensor"
        if r < 0.5:
            # move interior vertices by less than a quarter of the smallest adjacent step: stays convex
            hx = np.min(np.diff(np.unique(p[0])))
            hy = np.min(np.diff(np.unique(p[1])))
            bn = set(int(v) for v in m.boundary_nodes())
            for v in range(p.shape[1]):
                if v not in bn:
                    p[0, v] += rng.randint(-1, 1) * hx / 4
                    p[1, v] += rng.randint(-1, 1) * hy / 4
            info["gen"] = "tensor-jiggled"
        return p, t, info
    if kind == "hex":
        m = MeshHex1.init_tensor(pick_axis(rng, rng.randint(1, 3)), pick_axis(rng, rng.randint(1, 2)),
                                 pick_axis(rng, rng.randint(1, 2)))
        p, t = m.p.copy(), m.t.astype(np.int64)
        info["gen"] = "tensor"
        if r < 0.35:
            # vertical columns of vertices moved together: side faces stay in vertical planes
            hx = np.min(np.diff(np.unique(p[0])))
            hy = np.min(np.diff(np.unique(p[1])))
            x0, x1, y0, y1 = p[0].min(), p[0].max(), p[1].min(), p[1].max()
            for key, vs in _group_columns(p, (0, 1)).items():
                if key[0] in (x0, x1) or key[1] in (y0, y1):
                    continue
                dx, dy = rng.randint(-1, 1) * hx / 4, rng.randint(-1, 1) * hy / 4
                p[0, vs] += dx
                p[1, vs] += dy
            info["gen"] = "extruded-general-quads"
        elif r < 0.6:
            # frusta: every z-layer scaled in (x, y) about the origin by its own dyadic factor
            for z in np.unique(p[2]):
                f = rng.choice([0.5, 0.75, 1.0, 1.25, 1.5, 2.0])
                p[:2, p[2] == z] *= f
            info["gen"] = "frusta"
        return p, t, info
    if kind == "wedge":
        if r < 0.5:
            pt, tt, _ = meshes.base_mesh(rng, "tri")
            mt = MeshTri1(pt, tt.astype(np.int32))
            info["gen"] = "extruded-" + _.get("gen", "tri")
        else:
            mt = MeshTri1.init_tensor(pick_axis(rng, rng.randint(1, 2)), pick_axis(rng, rng.randint(1, 2)))
            info["gen"] = "extruded-tensor"
        if mt.t.shape[1] > 14:
            mt = MeshTri1.init_tensor(pick_axis(rng, 2), pick_axis(rng, 1))
        m = mt * MeshLine1(pick_axis(rng, rng.randint(1, 2))[None, :])
        p, t = m.p.copy(), m.t.astype(np.int64)
        if rng.random() < 0.3:
            for z in np.unique(p[2]):
                f = rng.choice([0.5, 0.75, 1.0, 1.25, 1.5, 2.0])
                p[:2, p[2] == z] *= f
            info["gen"] += "+frusta"
        return p, t, info
    raise ValueError(kind)


def cluster_mesh(rng, kind):
    """Delaunay mesh of a tight cluster of vertices plus a few far vertices: long thin cells next to many
    tiny ones, so that the cell of a point is NOT among the cells with the nearest centroids"""
    from scipy.spatial import Delaunay
    dim = 2 if kind == "tri" else 3
    while True:
        pts = set()
        ncl = rng.randint(6, 12) if dim == 2 else rng.randint(8, 14)
        while len(pts) < ncl:
            pts.add(tuple(rng.randint(-8, 8) / 64 for _ in range(dim)))
        nfar = rng.randint(3, 5) if dim == 2 else rng.randint(4, 6)
        while len(pts) < ncl + nfar:
            q = tuple(rng.choice([-1, 1]) * rng.randint(8, 32) / 4 for _ in range(dim))
            pts.add(q)
        P = np.array(sorted(pts))
        try:
            d = Delaunay(P)
        except Exception:
            continue
        tt = d.simplices.T
        V = P[tt]                                  # (dim+1) x nt x dim
        M = np.array([V[i + 1] - V[0] for i in range(dim)])      # dim x nt x dim
        vol = np.linalg.det(np.transpose(M, (1, 0, 2)))
        tt = tt[:, np.abs(vol) > 1e-9]
        if tt.shape[1] >= 4 and len(np.unique(tt)) == len(P):
            return P.T.copy(), tt.astype(np.int64), {"gen": "cluster"}


def notch(rng, p, t):
    """drop the cells whose centroid lies in a random corner box / central box: L-shapes, notches, holes"""
    nt = t.shape[1]
    if nt < 4:
        return p, t, False
    c = p[:, t].mean(axis=1)          # dim x nt
    lo, hi = p.min(axis=1), p.max(axis=1)
    mode = rng.choice(["corner", "centre", "slit"])
    if mode == "corner":
        mid = lo + (hi - lo) * rng.choice([0.4, 0.5, 0.6])
        side = [rng.random() < 0.5 for _ in range(p.shape[0])]
        drop = np.ones(nt, dtype=bool)
        for i in range(p.shape[0]):
            drop &= (c[i] > mid[i]) if side[i] else (c[i] < mid[i])
    elif mode == "centre":
        a, b = lo + (hi - lo) * 0.3, lo + (hi - lo) * 0.7
        drop = np.ones(nt, dtype=bool)
        for i in range(p.shape[0]):
            drop &= (c[i] > a[i]) & (c[i] < b[i])
    else:
        i = rng.randrange(p.shape[0])
        a, b = lo[i] + (hi[i] - lo[i]) * 0.35, lo[i] + (hi[i] - lo[i]) * 0.65
        drop = (c[i] > a) & (c[i] < b)
        j = (i + 1) % p.shape[0] if p.shape[0] > 1 else i
        if p.shape[0] > 1:
            drop &= c[j] > lo[j] + (hi[j] - lo[j]) * 0.4
    keep = np.nonzero(~drop)[0]
    if len(keep) < 2 or len(keep) == nt:
        return p, t, False
    t = t[:, keep]
    used = np.unique(t)
    remap = -np.ones(p.shape[1], dtype=np.int64)
    remap[used] = np.arange(len(used))
    return p[:, used], remap[t], True


def gen_c14_mesh(rng, kind, plain=False):
    """returns (mesh, info, dropped) where dropped = list of vertex-coordinate arrays of the removed
    cells (dim x nverts each; used to place query points inside holes and notches)"""
    p, t, info = c14_base(rng, kind)
    dropped = []
    p0, t0 = p, t
    r = rng.random()
    if not plain and r < 0.3:
        p1, t1 = meshes.drop_cells(rng, p, t)
        if t1.shape[1] < t.shape[1]:
            info["holes"] = "random"
            p, t = p1, t1
    elif not plain and r < 0.6:
        p1, t1, ok = notch(rng, p, t)
        if ok:
            info["holes"] = "notch"
            p, t = p1, t1
    if "holes" in info:
        kept = set(tuple(sorted(map(tuple, np.round(p[:, t[:, k]].T, 12).tolist()))) for k in range(t.shape[1]))
        for k in range(t0.shape[1]):
            key = tuple(sorted(map(tuple, np.round(p0[:, t0[:, k]].T, 12).tolist())))
            if key not in kept:
                dropped.append(p0[:, t0[:, k]].copy())
    A = None
    if not plain and rng.random() < 0.6 and kind != "line":
        A = affine_dyadic(rng, p.shape[0], aniso=rng.random() < 0.7, shear=rng.random() < 0.7)
        shift = np.array([_dy(rng, -2, 2, 2) for _ in range(p.shape[0])])
        p = A @ p + shift[:, None]
        dropped = [A @ d + shift[:, None] for d in dropped]
        info["affine"] = A.tolist()
    elif not plain and kind == "line" and rng.random() < 0.5:
        f = 2.0 ** rng.choice([-6, -3, 2, 5])
        p = p * f
        dropped = [d * f for d in dropped]
        info["affine"] = [[f]]
    if rng.random() < 0.7:
        p, t, _ = meshes.renumber(rng, p, t)
        info["renumbered"] = True
    if rng.random() < 0.6:
        t, _ = meshes.permute_cells(rng, t)
        info["cells-permuted"] = True
    if rng.random() < 0.6:
        t = meshes.local_reorder(rng, kind, t)
        info["local-reorder"] = True
    m = meshes.CLS[kind](np.ascontiguousarray(p), np.ascontiguousarray(t.astype(np.int32)))
    info.update(kind=kind, nt=int(m.t.shape[1]), nv=int(m.p.shape[1]))
    return m, info, dropped


# --------------------------------------------------------------------------
# query points

def dyadic_weights(rng, n, bits=4, positive=True):
    """n non-negative dyadic weights with sum 1 (all positive if requested)"""
    tot = 1 << bits
    while True:
        if positive:
            if n > tot:
                bits += 1
                tot = 1 << bits
                continue
            cuts = sorted(rng.sample(range(1, tot), n - 1)) if n > 1 else []
        else:
            cuts = sorted(rng.randint(0, tot) for _ in range(n - 1))
        w = [b - a for a, b in zip([0] + cuts, cuts + [tot])]
        if not positive or all(v > 0 for v in w):
            return [v / tot for v in w]


def combo(V, w):
    """sum_i w_i V[:, i] computed exactly (dyadic inputs, few bits) in floating point"""
    out = np.zeros(V.shape[0])
    for i, wi in enumerate(w):
        out = out + wi * V[:, i]
    return out


def sub_entities(m):
    """vertex-id tuples of the facets (and, in 3-D, edges) of the mesh"""
    ents = [tuple(dict.fromkeys(int(v) for v in m.facets[:, f])) for f in range(m.facets.shape[1])]
    if m.p.shape[0] == 3:
        ents += [tuple(int(v) for v in m.edges[:, e]) for e in range(m.edges.shape[1])]
    return ents


def query_points(rng, m, dropped, n_in=12, n_out=8):
    """list of (x, category) with category in vertex / facet / interior (points of the meshed domain)
    and hole / near / far / bbox (candidates for points outside; the exact oracle decides)"""
    dim = m.p.shape[0]
    pts = []
    nv, nt = m.p.shape[1], m.t.shape[1]
    for _ in range(max(2, n_in // 3)):
        pts.append((m.p[:, rng.randrange(nv)].copy(), "vertex"))
    ents = sub_entities(m) if dim > 1 else []
    for _ in range(max(2, n_in // 3)):
        if dim == 1:
            pts.append((m.p[:, rng.randrange(nv)].copy(), "vertex"))
            continue
        e = ents[rng.randrange(len(ents))]
        w = dyadic_weights(rng, len(e), bits=3)
        pts.append((combo(m.p[:, list(e)], w), "facet"))
    for _ in range(max(2, n_in - 2 * (n_in // 3))):
        k = rng.randrange(nt)
        V = m.p[:, m.t[:, k]]
        if rng.random() < 0.35:
            # close to one vertex of the cell (far from the centroid of a long cell)
            nvt = V.shape[1]
            w = [rng.randint(1, 2) for _ in range(nvt)]
            w[rng.randrange(nvt)] += 64 - sum(w)
            w = [v / 64 for v in w]
        else:
            w = dyadic_weights(rng, V.shape[1], bits=rng.choice([3, 4, 6]))
        pts.append((combo(V, w), "interior"))
    lo, hi = m.p.min(axis=1), m.p.max(axis=1)
    ext = np.maximum(hi - lo, 2.0 ** -8)
    for _ in range(n_out):
        r = rng.random()
        if dropped and r < 0.45:
            V = dropped[rng.randrange(len(dropped))]
            w = dyadic_weights(rng, V.shape[1], bits=rng.choice([3, 4]))
            pts.append((combo(V, w), "hole"))
        elif r < 0.65:
            # just outside a boundary facet: reflect an interior point of the cell across the facet
            bf = m.boundary_facets()
            f = int(bf[rng.randrange(len(bf))])
            ids = list(dict.fromkeys(int(v) for v in m.facets[:, f]))
            k = int(m.f2t[0, f])
            a = combo(m.p[:, ids], dyadic_weights(rng, len(ids), bits=3))
            b = combo(m.p[:, m.t[:, k]], dyadic_weights(rng, m.t.shape[0], bits=3))
            s = rng.choice([1.0, 0.25, 2.0 ** -6])
            pts.append((a + s * (a - b), "near"))
        elif r < 0.85:
            x = np.array([lo[i] + ext[i] * rng.choice([-0.25, -2.0 ** -7, 0.5, 1 + 2.0 ** -7, 1.5])
                          for i in range(dim)])
            pts.append((x, "bbox"))
        else:
            x = np.array([rng.choice([-1, 1]) * 2.0 ** rng.choice([3, 7, 12]) for _ in range(dim)])
            pts.append((x, "far"))
    return pts
