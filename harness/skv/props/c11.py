"""C11  Derived mesh connectivity is coherent with the cell list."""
import numpy as np

from .. import meshes
from ..core import exc_kind

KINDS = meshes.FIRST_ORDER + meshes.SECOND_ORDER


def ref_tables(m):
    rd = m.elem.refdom
    return rd.facets, rd.edges


def model_requests(m):
    """driver requests reproducing facets/t2f, edges/t2e, f2t (+ f2e) of a mesh"""
    facets_ref, edges_ref = ref_tables(m)
    nn = m.elem.refdom.nnodes
    cells = m.t[:nn].T.tolist() if False else m.t.T.tolist()
    reqs = []
    sort = type(m).__name__ not in ("MeshHex1", "MeshHex2")
    reqs.append(("facets", {"op": "topo.entities", "cells": cells, "ref": [list(map(int, r)) for r in facets_ref],
                            "sort": sort}))
    if edges_ref is not None:
        reqs.append(("edges", {"op": "topo.entities", "cells": cells, "ref": [list(map(int, r)) for r in edges_ref],
                               "sort": True}))
    reqs.append(("f2t", {"op": "topo.inverse", "nt": int(m.t.shape[1]), "mapping": m.t2f.tolist()}))
    if m.dim() == 3 and m.bndelem is not None:
        reqs.append(("f2e", {"op": "topo.entities", "cells": m.facets.T.tolist(),
                             "ref": [list(map(int, r)) for r in m.bndelem.refdom.facets], "sort": True}))
    return reqs


def compare(ctx, m, info, tag, req, out):
    if "error" in out:
        ctx.corr("topo." + tag, False, req, out, None)
        return
    if tag == "facets":
        ok = out["entities"] == m.facets.T.tolist() and out["mapping"] == m.t2f.tolist()
        ctx.corr("topo.entities(facets)", ok, {"mesh": meshes.mesh_descr(m), "info": info},
                 out, {"entities": m.facets.T.tolist(), "mapping": m.t2f.tolist()})
    elif tag == "edges":
        ok = out["entities"] == m.edges.T.tolist() and out["mapping"] == m.t2e.tolist()
        ctx.corr("topo.entities(edges)", ok, {"mesh": meshes.mesh_descr(m), "info": info},
                 out, {"entities": m.edges.T.tolist(), "mapping": m.t2e.tolist()})
    elif tag == "f2t":
        ok = (out["f2t0"] == m.f2t[0].tolist() and out["f2t1"] == m.f2t[1].tolist()
              and out["boundary"] == m.boundary_facets().tolist())
        ctx.corr("topo.inverse", ok, {"mesh": meshes.mesh_descr(m), "info": info}, out,
                 {"f2t": m.f2t.tolist(), "boundary": m.boundary_facets().tolist()})
    elif tag == "f2e":
        # only the mapping is used by the library (f2e); entity numbering must coincide with edges
        f2e = m.f2e
        ok = out["mapping"] == f2e.tolist()
        ctx.corr("topo.entities(f2e)", ok, {"mesh": meshes.mesh_descr(m), "info": info}, out["mapping"],
                 f2e.tolist())


# ---------------------------------------------------------------------------
# independent oracle on the implementation's tables

def oracle(m):
    """returns list of (what, detail) failures of the relational invariants"""
    bad = []
    rd = m.elem.refdom
    t = m.t
    nt = t.shape[1]
    facets, t2f, f2t = m.facets, m.t2f, m.f2t

    def canon(cols):
        return [tuple(sorted(set(int(v) for v in c))) for c in cols.T]

    fc = canon(facets)
    if len(set(fc)) != len(fc):
        bad.append(("facet appears twice", None))
    # slot spec
    for i, loc in enumerate(rd.facets):
        want = canon(t[list(loc)])
        got = [fc[j] for j in t2f[i]]
        if want != got:
            k = next(k for k in range(nt) if want[k] != got[k])
            bad.append(("t2f slot does not name the facet spanned by the local vertices",
                        {"slot": i, "cell": k, "want": want[k], "got": got[k]}))
            break
    # every facet occurs in some slot
    if set(range(facets.shape[1])) != set(int(v) for v in np.unique(t2f)):
        bad.append(("facet not referenced by any cell / index out of range", None))
    # f2t
    owners = {}
    for i in range(t2f.shape[0]):
        for k in range(nt):
            owners.setdefault(int(t2f[i, k]), set()).add(k)
    if f2t.shape != (2, facets.shape[1]):
        bad.append(("f2t has wrong shape", {"shape": list(f2t.shape)}))
    else:
        for f in range(facets.shape[1]):
            got = {int(f2t[0, f]), int(f2t[1, f])} - {-1}
            own = owners.get(f, set())
            if len(own) <= 2:
                if got != own or int(f2t[0, f]) == -1 or (len(own) == 1) != (int(f2t[1, f]) == -1):
                    bad.append(("f2t does not list exactly the cells containing the facet",
                                {"facet": f, "f2t": f2t[:, f].tolist(), "cells": sorted(own)}))
                    break
    # boundary facets
    single = sorted(f for f, o in owners.items() if len(o) == 1)
    if m.boundary_facets().tolist() != single:
        bad.append(("boundary_facets() is not the set of facets with a single neighbour",
                    {"got": m.boundary_facets().tolist(), "want": single}))
    bn = sorted({int(v) for f in single for v in facets[:, f]})
    if sorted(m.boundary_nodes().tolist()) != bn:
        bad.append(("boundary_nodes() is not the vertex set of the boundary facets", None))
    allv = set(range(m.p.shape[1]))
    if sorted(m.interior_nodes().tolist()) != sorted(allv - set(bn)):
        bad.append(("interior_nodes() is not the complement of the boundary nodes", None))
    if hasattr(m, "interior_facets"):
        inter = sorted(set(range(facets.shape[1])) - set(single))
        if sorted(m.interior_facets().tolist()) != inter:
            bad.append(("interior_facets() is not the complement of the boundary facets", None))
    # edges
    if rd.edges is not None:
        edges, t2e = m.edges, m.t2e
        ec = canon(edges)
        if len(set(ec)) != len(ec):
            bad.append(("edge appears twice", None))
        for i, loc in enumerate(rd.edges):
            want = canon(t[list(loc)])
            got = [ec[j] for j in t2e[i]]
            if want != got:
                bad.append(("t2e slot does not name the edge spanned by the local vertices",
                            {"slot": i}))
                break
        if set(range(edges.shape[1])) != set(int(v) for v in np.unique(t2e)):
            bad.append(("edge not referenced by any cell", None))
        if m.bndelem is not None:
            # f2e: edges of a facet are sub-tuples of the facet
            f2e = m.f2e
            for i in range(f2e.shape[0]):
                for f in range(facets.shape[1]):
                    if not set(ec[f2e[i, f]]) <= set(fc[f]):
                        bad.append(("f2e names an edge that is not part of the facet", {"facet": f}))
                        break
                else:
                    continue
                break
            # boundary edges = edges of boundary facets
            bfe = sorted({int(e) for f in single for e in f2e[:, f]})
            try:
                got = sorted(int(e) for e in m.boundary_edges())
            except Exception as e:  # pragma: no cover
                got = exc_kind(e)
            if got != bfe:
                bad.append(("boundary_edges() is not the edge set of the boundary facets",
                            {"got": got, "want": bfe}))
            else:
                ie = sorted(set(range(edges.shape[1])) - set(bfe))
                if sorted(int(e) for e in m.interior_edges()) != ie:
                    bad.append(("interior_edges() is not the complement", None))
    # incidence matrices
    p2f = m.p2f.toarray()
    want = np.zeros_like(p2f)
    for f in range(facets.shape[1]):
        for v in facets[:, f]:
            want[f, v] += 1
    if p2f.shape != want.shape or ((p2f != 0) != (want != 0)).any():
        bad.append(("p2f disagrees with facets", None))
    p2t = m.p2t.toarray()
    want = np.zeros_like(p2t)
    for k in range(nt):
        for v in t[:, k]:
            want[k, v] += 1
    if ((p2t != 0) != (want != 0)).any():
        bad.append(("p2t disagrees with t", None))
    if rd.edges is not None:
        p2e = m.p2e.toarray()
        want = np.zeros_like(p2e)
        for e in range(m.edges.shape[1]):
            for v in m.edges[:, e]:
                want[e, v] += 1
        if ((p2e != 0) != (want != 0)).any():
            bad.append(("p2e disagrees with edges", None))
        e2t = m.e2t.toarray()
        want = np.zeros(e2t.shape, dtype=bool)
        nn = rd.nnodes
        for k in range(nt):
            vs = set(int(v) for v in t[:, k])
            for e in range(m.edges.shape[1]):
                if set(int(v) for v in m.edges[:, e]) <= vs:
                    want[k, e] = True
        if e2t.shape != want.shape or ((e2t != 0) != want).any():
            bad.append(("e2t disagrees with edge/cell incidence", None))
    return bad


def canonical_topology(m):
    """numbering-independent description (in terms of vertex coordinates)"""
    key = {j: tuple(m.p[:, j].tolist()) for j in range(m.p.shape[1])}
    nn = m.elem.refdom.nnodes

    def ent(cols):
        return [tuple(sorted(key[int(v)] for v in set(c.tolist()))) for c in cols.T]

    cellkey = ent(m.t[:nn])
    fkey = ent(m.facets[: (m.facets.shape[0])] if True else m.facets)
    nbrs = set()
    for f in range(m.facets.shape[1]):
        ks = frozenset(cellkey[k] for k in m.f2t[:, f] if k >= 0)
        nbrs.add((fkey[f], ks))
    bnd = frozenset(fkey[f] for f in m.boundary_facets())
    bn = frozenset(key[int(v)] for v in m.boundary_nodes())
    return nbrs, bnd, bn


def run(ctx):
    ctx.rule = ("random meshes of all ten mesh classes (Delaunay/tensor/refined, holes, vertex renumbering, cell "
                "permutation, admissible local re-ordering); a case is one mesh; distinct = distinct (class, p, t); "
                "non-trivial = at least two cells")
    ctx.trusted += ["Lean kernel; axioms propext/Classical.choice/Quot.sound",
                    "model Skv.buildEntities/buildInverse hand-written, tied by exact correspondence ops topo.*",
                    "NumPy sort/unique(axis=1) contract (modelled, validated by the correspondence)",
                    "scipy.sparse incidence matrices observed through toarray()"]
    ctx.assumptions += ["manifold-ness (a facet lies in at most two cells) is a hypothesis on the input mesh",
                        "second-order classes: vertex rows of t only take part in the connectivity"]
    if not getattr(ctx, "no_lean", False):
        ctx.prove(["SkfemVerif.Props.C11"], ["SkfemVerif/Props/C11.lean"])
    n = ctx.scale(400, 2500)
    pending = []
    for it in range(n):
        if ctx.time_left(0.8) < 0:
            break
        m, info = meshes.gen_mesh(ctx.rng, KINDS)
        ctx.count("mesh:" + info["kind"])
        for k in ("holes", "renumbered", "cells-permuted", "local-reorder"):
            if info.get(k):
                ctx.count(k)
        ctx.case({"cls": info["kind"], "p": m.p.tolist(), "t": m.t.tolist()}, nontrivial=m.t.shape[1] >= 2,
                 sample={"info": info, "t": m.t.tolist()} if it < 2 else None)
        try:
            bad = oracle(m)
        except Exception as e:
            bad = [("connectivity query raised " + exc_kind(e), repr(e))]
        for what, detail in bad:
            ctx.violation(what, {"mesh": meshes.mesh_descr(m), "info": info, "detail": detail},
                          {"what": what, "cls": type(m).__name__})
        # numbering independence: renumber vertices + permute cells, compare canonically
        try:
            nn = m.elem.refdom.nnodes
            if m.t.shape[0] == nn:
                p2, t2, _ = meshes.renumber(ctx.rng, m.p, m.t.astype(np.int64))
                t2, _ = meshes.permute_cells(ctx.rng, t2)
                m2 = type(m)(p2, t2.astype(np.int32))
                if canonical_topology(m) != canonical_topology(m2):
                    ctx.violation("connectivity depends on vertex numbering / cell order",
                                  {"mesh": meshes.mesh_descr(m), "renumbered": meshes.mesh_descr(m2)},
                                  {"what": "numbering-dependence", "cls": type(m).__name__})
                ctx.count("renumbering-pairs")
        except Exception as e:
            ctx.violation("renumbered mesh raised " + exc_kind(e), {"mesh": meshes.mesh_descr(m), "err": repr(e)},
                          {"what": "raise", "cls": type(m).__name__})
        # boundary / interior edges under MANY vertex numberings (the pair encoding of edges must not collide)
        try:
            if m.dim() == 3 and m.t.shape[0] == m.elem.refdom.nnodes and m.p.shape[1] <= 40:
                for rep in range(ctx.scale(12, 40)):
                    p2, t2, _ = meshes.renumber(ctx.rng, m.p, m.t.astype(np.int64))
                    m2 = type(m)(p2, t2.astype(np.int32))
                    bf = np.nonzero(m2.f2t[1] == -1)[0]
                    fsets = [set(int(v) for v in m2.facets[:, f]) for f in bf]
                    want = sorted(e for e in range(m2.edges.shape[1])
                                  if any(set(int(v) for v in m2.edges[:, e]) <= fs for fs in fsets))
                    got = sorted(int(e) for e in m2.boundary_edges())
                    goti = sorted(int(e) for e in m2.interior_edges())
                    ctx.count("edge-numbering-sweep")
                    if got != want or goti != sorted(set(range(m2.edges.shape[1])) - set(want)):
                        ctx.violation("boundary_edges() / interior_edges() are not the edges of the boundary facets "
                                      "and their complement under this vertex numbering",
                                      {"mesh": meshes.mesh_descr(m2), "got": got, "want": want},
                                      {"what": "boundary-edges-numbering", "cls": type(m).__name__})
                        break
        except Exception as e:
            ctx.violation("edge queries on a renumbered mesh raised " + exc_kind(e),
                          {"mesh": meshes.mesh_descr(m), "err": repr(e)}, {"what": "raise", "cls": type(m).__name__})
        # meshes obtained from library operations AFTER the connectivity of the operand has been queried
        # (the tables are cached lazily: a copy must not inherit tables that no longer fit its cells)
        try:
            nn = m.elem.refdom.nnodes
            if m.t.shape[0] == nn and ctx.rng.random() < 0.6:
                kind = info["kind"]
                ops = ["translated", "with_subdomains", "restrict", "remove_elements"]
                if kind in ("tri", "tet"):
                    ops += ["oriented", "oriented"]
                if kind not in ("wedge",):
                    ops += ["refined", "mirrored"]
                if kind not in ("wedge", "line"):
                    ops += ["with_defaults"]       # MeshLine1 has no params(): default tags are not offered in 1-D
                if kind in ("tri", "tet", "line") and type(m).__name__.endswith("1") and m.nelements <= 24:
                    ops += ["adaptive", "adaptive"]
                if type(m).__name__.endswith("1") and m.nelements >= 2:
                    ops += ["remove_duplicate_nodes", "remove_duplicate_nodes"]
                op = ctx.rng.choice(ops)
                before = (m.p.copy(), m.t.copy())
                canon_before = canonical_topology(m)
                if op == "oriented":
                    # hand the constructor a mesh with negatively oriented cells, query, then orient
                    t2 = m.t.copy()
                    flip = [k for k in range(t2.shape[1]) if ctx.rng.random() < 0.5]
                    t2[[0, 1]] = np.where(np.isin(np.arange(t2.shape[1]), flip), t2[[1, 0]], t2[[0, 1]])
                    mq = type(m)(m.p, t2, sort_t=False) if kind == "tri" else type(m)(m.p, t2)
                    mq.facets, mq.t2f, mq.f2t, mq.boundary_nodes()
                    if mq.dim() == 3:
                        mq.edges, mq.t2e
                    md = mq.oriented()
                elif op == "translated":
                    md = m.translated(tuple(0.5 for _ in range(m.dim())))
                elif op == "with_subdomains":
                    md = m.with_subdomains({"s": np.array([0], dtype=np.int32)})
                elif op == "with_defaults":
                    md = m.with_defaults()
                elif op == "restrict":
                    md = m.restrict(np.array(sorted(ctx.rng.sample(range(m.nelements),
                                                                   ctx.rng.randint(1, m.nelements))), dtype=np.int32))
                elif op == "remove_elements":
                    md = m.remove_elements(np.array([ctx.rng.randrange(m.nelements)], dtype=np.int32)) \
                        if m.nelements > 1 else m
                elif op == "refined":
                    md = m.refined(1) if m.nelements <= 16 else m
                elif op == "remove_duplicate_nodes":
                    # the same cells over a vertex array in which some vertices occur twice (as after gluing parts),
                    # with a named boundary; tables queried, then the duplicates are removed
                    nvv = m.p.shape[1]
                    dup = sorted(ctx.rng.sample(range(nvv), ctx.rng.randint(1, max(1, nvv // 3))))
                    p2 = np.hstack((m.p, m.p[:, dup]))
                    t2 = m.t.copy()
                    for j, v in enumerate(dup):
                        cols = [k for k in range(t2.shape[1]) if (t2[:, k] == v).any()]
                        for k in ctx.rng.sample(cols, ctx.rng.randint(1, len(cols))):
                            t2[t2[:, k] == v, k] = nvv + j
                    mq = type(m)(p2, t2)
                    try:
                        mq = mq.with_boundaries({"bnd": lambda x: x[0] > -1e9})
                    except Exception:
                        pass
                    mq.facets, mq.t2f, mq.f2t
                    md = mq.remove_duplicate_nodes()
                elif op == "adaptive":
                    md = m.refined(np.array(sorted(ctx.rng.sample(range(m.nelements),
                                                                  ctx.rng.randint(1, m.nelements))), dtype=np.int64))
                else:
                    md = m.mirrored(tuple(1.0 if i == 0 else 0.0 for i in range(m.dim())))
                ctx.count("derived:" + op)
                for what, detail in oracle(md):
                    ctx.violation(what + " (mesh derived by " + op + " after its operand's tables were queried)",
                                  {"mesh": meshes.mesh_descr(m), "op": op, "derived": meshes.mesh_descr(md),
                                   "detail": detail}, {"what": what, "cls": type(md).__name__, "op": op})
                # ... and the OPERAND keeps using its own tables: they must still describe its cells
                if op != "oriented":
                    if not (np.array_equal(before[0], m.p) and np.array_equal(before[1], m.t)):
                        ctx.violation("the operand's p / t changed while a mesh was derived from it by " + op +
                                      " (its cached tables no longer describe its cells)",
                                      {"mesh": meshes.mesh_descr(m), "op": op, "t_before": before[1].tolist()},
                                      {"what": "operand-changed", "cls": type(m).__name__, "op": op})
                    else:
                        for what, detail in oracle(m):
                            ctx.violation(what + " (operand re-examined after " + op + ")",
                                          {"mesh": meshes.mesh_descr(m), "op": op, "detail": detail},
                                          {"what": what, "cls": type(m).__name__, "op": "operand-after-" + op})
                        if canonical_topology(m) != canon_before:
                            ctx.violation("the operand's connectivity tables changed while a mesh was derived by " + op,
                                          {"mesh": meshes.mesh_descr(m), "op": op},
                                          {"what": "operand-tables-changed", "cls": type(m).__name__, "op": op})
        except Exception as e:
            ctx.violation("derived mesh raised " + exc_kind(e), {"mesh": meshes.mesh_descr(m), "err": repr(e)},
                          {"what": "raise-derived", "cls": type(m).__name__})
        try:
            for tag, req in model_requests(m):
                pending.append((m, info, tag, req))
        except Exception as e:
            ctx.violation("connectivity tables raised " + exc_kind(e), {"mesh": meshes.mesh_descr(m), "err": repr(e)},
                          {"what": "raise", "cls": type(m).__name__})
    if ctx.driver.available():
        outs = ctx.driver.run([r for (_, _, _, r) in pending])
        for (m, info, tag, req), out in zip(pending, outs):
            compare(ctx, m, info, tag, req, out)
    else:
        ctx.broken.append({"kind": "driver-missing"})
    if ctx.tier == "thorough" and not getattr(ctx, "no_lean", False):
        ctx.leanchecker(["SkfemVerif.Props.C11"])
