"""C06  Galerkin exactness end to end (patch test and projection identity)."""
from fractions import Fraction

import numpy as np

from .. import meshes, elements, exact
from ..core import exc_kind, exc_trace
from ..expoly import P

# (mesh kind, element name, degree of polynomial completeness, per-direction?)
COMPLETE = [
    ("line", "ElementLineP1", 1, False), ("line", "ElementLineP2", 2, False),
    ("tri", "ElementTriP1", 1, False), ("tri", "ElementTriP2", 2, False), ("tri", "ElementTriP3", 3, False),
    ("tri", "ElementTriP4", 4, False),
    ("tet", "ElementTetP1", 1, False), ("tet", "ElementTetP2", 2, False),
    ("quad", "ElementQuad1", 1, True), ("quad", "ElementQuad2", 2, True), ("quad", "ElementQuadS2", 2, False),
    ("hex", "ElementHex1", 1, True), ("hex", "ElementHexS2", 2, False),
]


def pcall(p: P):
    return exact.poly_callable(p)


def gen_solution(rng, dim, deg, per_direction):
    return exact.rand_poly(rng, dim, deg, per_direction=per_direction)


def laplacian(u: P):
    out = P(u.n)
    for i in range(u.n):
        out = out + u.deriv(i).deriv(i)
    return out


def lagrange_coeffs(basis, ufun):
    """coefficients of u* in a Lagrange basis = values at the DOF locations"""
    return ufun(basis.doflocs)


def split_boundary(rng, m):
    bf = [int(f) for f in m.boundary_facets()]
    rng.shuffle(bf)
    k = rng.randint(1, len(bf))
    return sorted(bf[:k]), sorted(bf[k:])


def poisson_patch(ctx, rng, kind, ename, deg, perdir):
    from skfem import Basis, FacetBasis, BilinearForm, LinearForm, solve, condense, enforce
    from skfem import element as E
    from skfem.models.poisson import laplace, mass
    general = False
    if kind in ("quad", "hex") and deg == 1 and rng.random() < 0.5:
        # degree-one solutions also on general convex quadrilaterals / hexahedra: every vertex (those on the
        # boundary too: boundary faces of hexahedra become non-planar) is moved by less than 1/4 of the
        # smallest edge of the tensor mesh it comes from
        while True:
            m, info = meshes.gen_first_order(rng, kind, holes=(rng.random() < 0.2), reorder=False)
            if info.get("gen") == "tensor":
                break
        p = m.p.copy()
        for v in range(p.shape[1]):
            p[:, v] += np.array([rng.randint(-2, 2) for _ in range(p.shape[0])]) / 64
        m = type(m)(p, m.t)
        info = dict(info, gen="tensor-jiggled-all")
        general = True
        sol_deg, sol_perdir = 1, False
    elif kind in ("quad",) and deg == 1 and rng.random() < 0.3:
        while True:
            m, info = meshes.gen_first_order(rng, kind)
            if info.get("gen") == "tensor-jiggled":
                general = True
                break
        sol_deg, sol_perdir = 1, False
    else:
        while True:
            m, info = meshes.gen_first_order(rng, kind, holes=(rng.random() < 0.2))
            if info.get("gen") != "tensor-jiggled":
                break
        sol_deg, sol_perdir = deg, perdir
    if m.nelements > 24:
        return None
    e = getattr(E, ename)()
    dim = m.dim()
    u = gen_solution(rng, dim, sol_deg, sol_perdir)
    c = rng.choice([0, 0, 1, 2.5])
    if info.get("holes") and c == 0:
        c = 1      # removed cells may disconnect the mesh: keep every component well posed
    f = -laplacian(u) + u * Fraction(c)
    uf, ff = pcall(u), pcall(f)
    gf = [pcall(u.deriv(i)) for i in range(dim)]
    descr = {"mesh": meshes.mesh_descr(m), "info": info, "element": ename, "u": repr(u), "c": c,
             "problem": "poisson" if c == 0 else "reaction-diffusion"}
    order = 2 * e.maxdeg + (dim if general else 0)
    if rng.random() < 0.3 and m.nelements >= 2:
        # the whole mesh named as a list of ALL cells in another order (e.g. concatenated subdomains)
        perm = list(range(m.nelements))
        rng.shuffle(perm)
        basis = Basis(m, e, intorder=order, elements=np.array(perm, dtype=np.int64))
        descr["cells_listed"] = perm
        ctx.count("patch:all-cells-listed-in-another-order")
    else:
        basis = Basis(m, e, intorder=order)
    A = laplace.assemble(basis) + c * mass.assemble(basis)
    b = LinearForm(lambda v, w: ff(w.x) * v).assemble(basis)
    b0 = b
    xstar = lagrange_coeffs(basis, uf)
    sc = max(1.0, float(np.abs(xstar).max()))
    # several splits of the boundary with ONE assembled system, constrained by condense or by enforce
    for rep in range(3):
        Dfac, Nfac = split_boundary(rng, m)
        how = rng.choice(["condense", "condense", "enforce", "condense(I, expand=False)"])
        descr = dict(descr, dirichlet_facets=Dfac, neumann_facets=Nfac, constrained_by=how, split_number=rep)
        b = b0
        if Nfac:
            fbn = FacetBasis(m, e, facets=np.array(Nfac, dtype=np.int32), intorder=order)
            b = b0 + LinearForm(lambda v, w: sum(gf[i](w.x) * w.n[i] for i in range(dim)) * v).assemble(fbn)
        fbd = FacetBasis(m, e, facets=np.array(Dfac, dtype=np.int32), intorder=order)
        dofs = basis.get_dofs(facets=np.array(Dfac, dtype=np.int32))
        x = np.zeros(basis.N)
        proj = fbd.project(lambda xx: uf(xx))
        x[dofs.flatten()] = proj[dofs.flatten()]
        if how == "condense":
            sol = solve(*condense(A, b, x=x, D=dofs))
        elif how == "enforce":
            sol = solve(*enforce(A, b, x=x, D=dofs))
        else:
            # the kept set named explicitly, in the caller's (not ascending) order; the caller scatters the
            # reduced solution with that same index array
            I = [int(i) for i in np.setdiff1d(np.arange(basis.N), dofs.flatten())]
            rng.shuffle(I)
            I = np.array(I, dtype=np.int64)
            AII, bI = condense(A, b, x=x, I=I, expand=False)
            sol = x.copy()
            sol[I] = solve(AII, bI)
        err = float(np.abs(sol - xstar).max())
        ctx.count("patch:" + descr["problem"])
        ctx.count("patch-constrained-by:" + how)
        ctx.count("patch-element:" + ename)
        if general:
            ctx.count("patch:general-" + ("quadrilateral" if kind == "quad" else "hexahedron"))
        if err > 1e-10 * sc:
            return ("patch test: solution in the finite element space is not reproduced", dict(descr, error=err),
                    {"what": "patch", "element": ename, "problem": descr["problem"]})
    return False


def elasticity_patch(ctx, rng):
    from skfem import Basis, FacetBasis, LinearForm, solve, condense, ElementVector
    from skfem import element as E
    from skfem.models.elasticity import linear_elasticity
    kind, ename, deg = rng.choice([("tri", "ElementTriP1", 1), ("tri", "ElementTriP2", 2), ("tet", "ElementTetP1", 1),
                                   ("tet", "ElementTetP2", 2), ("quad", "ElementQuad2", 2)])
    while True:
        m, info = meshes.gen_first_order(rng, kind, holes=False)
        if info.get("gen") != "tensor-jiggled" and m.nelements <= 16:
            break
    dim = m.dim()
    e = ElementVector(getattr(E, ename)())
    lam, mu = rng.choice([1.0, 2.0, 0.5]), rng.choice([1.0, 0.75])
    us = [exact.rand_poly(rng, dim, deg) for _ in range(dim)]
    # sigma = 2 mu eps + lam tr(eps) I ;  f = - div sigma
    eps = [[(us[i].deriv(j) + us[j].deriv(i)) * Fraction(1, 2) for j in range(dim)] for i in range(dim)]
    tr = sum((eps[i][i] for i in range(dim)), P(dim))
    sig = [[eps[i][j] * Fraction(2 * mu) + (tr * Fraction(lam) if i == j else P(dim)) for j in range(dim)]
           for i in range(dim)]
    f = [-sum((sig[i][j].deriv(j) for j in range(dim)), P(dim)) for i in range(dim)]
    uf = [pcall(p) for p in us]
    ff = [pcall(p) for p in f]
    sf = [[pcall(sig[i][j]) for j in range(dim)] for i in range(dim)]
    descr = {"mesh": meshes.mesh_descr(m), "info": info, "element": "ElementVector(%s)" % ename,
             "u": [repr(p) for p in us], "lam": lam, "mu": mu, "problem": "elasticity"}
    basis = Basis(m, e, intorder=2 * e.maxdeg)
    A = linear_elasticity(lam, mu).assemble(basis)
    b = LinearForm(lambda v, w: sum(ff[i](w.x) * v[i] for i in range(dim))).assemble(basis)
    Dfac, Nfac = split_boundary(rng, m)
    descr["dirichlet_facets"], descr["neumann_facets"] = Dfac, Nfac
    if Nfac:
        fbn = FacetBasis(m, e, facets=np.array(Nfac, dtype=np.int32), intorder=2 * e.maxdeg)
        b = b + LinearForm(lambda v, w: sum(sf[i][j](w.x) * w.n[j] * v[i] for i in range(dim)
                                            for j in range(dim))).assemble(fbn)
    fbd = FacetBasis(m, e, facets=np.array(Dfac, dtype=np.int32), intorder=2 * e.maxdeg)
    dofs = basis.get_dofs(facets=np.array(Dfac, dtype=np.int32))
    x = np.zeros(basis.N)
    proj = fbd.project(lambda xx: np.array([uf[i](xx) for i in range(dim)]))
    x[dofs.flatten()] = proj[dofs.flatten()]
    sol = solve(*condense(A, b, x=x, D=dofs))
    # exact coefficients: component i at the DOF location
    xstar = np.zeros(basis.N)
    for comp in range(dim):
        idx = basis.split_indices()[comp] if False else None
    xs = basis.project(lambda xx: np.array([uf[i](xx) for i in range(dim)]))
    # independent: nodal values through doflocs (vector element: DOF j carries component j % dim)
    dl = basis.doflocs
    nodal = np.zeros(basis.N)
    names = e.dofnames
    ed = basis.element_dofs
    for j in range(ed.shape[0]):
        comp = j % dim
        nodal[ed[j]] = uf[comp](dl[:, ed[j]])
    err = float(np.abs(sol - nodal).max())
    sc = max(1.0, float(np.abs(nodal).max()))
    ctx.count("patch:elasticity")
    if err > 1e-10 * sc:
        return ("patch test (linear elasticity): solution in the space is not reproduced", dict(descr, error=err),
                {"what": "patch", "element": descr["element"], "problem": "elasticity"})
    return False


def projection_identity(ctx, rng):
    from skfem import Basis, FacetBasis
    second = rng.random() < 0.25
    kinds = meshes.SECOND_ORDER if second else ["line", "tri", "quad", "tet", "hex"]
    while True:
        m, info = meshes.gen_mesh(rng, kinds)
        if m.nelements <= 16:
            break
    base = info["kind"].rstrip("2")
    e, ename = elements.gen_element(rng, base, wrappers=(rng.random() < 0.3), exclude=("Skeleton", "DG"))
    fam = elements.family(e)
    if fam == "global" and (second or base in ("quad", "hex")):
        return None
    descr = {"mesh": meshes.mesh_descr(m), "info": info, "element": ename}
    mode = rng.choice(["whole", "subdomain", "boundary-part"])
    if fam in ("hdiv", "hcurl", "matrix", "composite", "global", "vector", "dg") and mode == "boundary-part":
        mode = "whole"
    if base == "line" and mode == "boundary-part":
        mode = "whole"
    basis = Basis(m, e)
    descr["mode"] = mode
    ctx.count("projection:" + mode + ("(curved)" if info.get("curved") else ""))
    cplx = rng.random() < 0.25 and fam not in ("global",)
    pkw = {"dtype": np.complex128} if cplx else {}
    if cplx:
        descr["dtype"] = "complex128"
        ctx.count("projection:complex")

    def rand_coeffs(k):
        v = np.array([rng.randint(-8, 8) / 4 for _ in range(k)])
        return v + 1j * np.array([rng.randint(-8, 8) / 4 for _ in range(k)]) if cplx else v
    if mode == "whole":
        xs = rand_coeffs(basis.N)
        y = basis.project(basis.interpolate(xs), **pkw)
    elif mode == "subdomain":
        sub = np.array(sorted(rng.sample(range(m.nelements), rng.randint(1, m.nelements))), dtype=np.int32)
        I = basis.get_dofs(elements=sub).flatten()
        xs = np.zeros(basis.N, dtype=np.complex128 if cplx else np.float64)
        xs[I] = rand_coeffs(len(I))
        y = basis.project(basis.interpolate(xs), elements=sub, **pkw)
        descr["cells"] = sub.tolist()
    elif rng.random() < 0.5:
        # ONE basis on the whole boundary, projections onto several parts of it in sequence (facets=...)
        bf = [int(f) for f in m.boundary_facets()]
        fb = FacetBasis(m, e)
        parts = [np.array(sorted(rng.sample(bf, rng.randint(1, len(bf)))), dtype=np.int32) for _ in range(2)] + [None]
        rng.shuffle(parts)
        descr["mode"] = "boundary-parts-in-sequence"
        ctx.count("projection:boundary-parts-in-sequence")
        for step, F in enumerate(parts):
            I = basis.get_dofs(facets=(F if F is not None else np.array(bf, dtype=np.int32))).flatten()
            xs = np.zeros(basis.N, dtype=np.complex128 if cplx else np.float64)
            xs[I] = rand_coeffs(len(I))
            y = fb.project(fb.interpolate(xs), **({} if F is None else {"facets": F}), **pkw)
            a, b = np.asarray(fb.interpolate(xs)), np.asarray(fb.interpolate(y))
            err = float(np.abs(a - b).max())
            sc = max(1.0, float(np.abs(a).max()))
            if err > 1e-9 * sc or (cplx and not np.iscomplexobj(y)):
                return ("boundary L2 projection (facets= given to project, one basis object, several parts in sequence) "
                        "of a function of the trace space does not return that function",
                        dict(descr, error=err, step=step, facets=None if F is None else F.tolist(),
                             sequence=[None if q is None else q.tolist() for q in parts]),
                        {"what": "projection", "mode": "boundary-sequence", "element": ename.split("(")[0]})
        return False
    else:
        bf = [int(f) for f in m.boundary_facets()]
        F = np.array(sorted(rng.sample(bf, rng.randint(1, len(bf)))), dtype=np.int32)
        fb = FacetBasis(m, e, facets=F)
        I = basis.get_dofs(facets=F).flatten()
        xs = np.zeros(basis.N, dtype=np.complex128 if cplx else np.float64)
        xs[I] = rand_coeffs(len(I))
        # only DOFs whose trace on the facet set is nonzero are determined by the boundary projection
        y = fb.project(fb.interpolate(xs), **pkw)
        descr["facets"] = F.tolist()
        # compare through the trace: interpolate both on the facet basis
        a, b = np.asarray(fb.interpolate(xs)), np.asarray(fb.interpolate(y))
        err = float(np.abs(a - b).max())
        sc = max(1.0, float(np.abs(a).max()))
        if err > 1e-9 * sc:
            return ("boundary L2 projection of a function of the trace space does not return that function",
                    dict(descr, error=err), {"what": "projection", "mode": mode, "element": ename.split("(")[0]})
        return False
    err = float(np.abs(y - xs).max())
    if cplx and not np.iscomplexobj(y):
        err = max(err, float(np.abs(xs.imag).max()))
    sc = max(1.0, float(np.abs(xs).max()))
    # "to rounding error": the error of solving M y = M x* is bounded by cond(M) * machine epsilon
    from skfem import BilinearForm
    try:
        Md = basis._projection(basis.interpolate(xs))[0].toarray()
        cond = float(np.linalg.cond(Md)) if Md.shape[0] <= 400 else 1e6
    except Exception:
        cond = 1e6
    tol = max(1e-9, 1e-13 * cond)
    if fam == "global":
        tol = max(tol, 1e-6)
    if err > tol * sc:
        return ("L2 projection of a function already in the space does not return that function",
                dict(descr, error=err), {"what": "projection", "mode": mode, "element": ename.split("(")[0]})
    return False


def coarsest_full_dirichlet(ctx):
    """every DOF on the boundary (one cell / the library's coarsest meshes, degree-one elements, Dirichlet data on
    the whole boundary): the condensed system is EMPTY and the answer is the prescribed data; also through enforce"""
    import skfem
    from skfem import Basis, solve, condense, enforce
    from skfem.models.poisson import laplace
    cases = [(skfem.MeshLine1(), skfem.ElementLineP1), (skfem.MeshTri1(), skfem.ElementTriP1),
             (skfem.MeshQuad1(), skfem.ElementQuad1), (skfem.MeshTet1(), skfem.ElementTetP1),
             (skfem.MeshHex1(), skfem.ElementHex1), (skfem.MeshTri1.init_refdom(), skfem.ElementTriP1),
             (skfem.MeshQuad1.init_refdom(), skfem.ElementQuad1), (skfem.MeshTri1(), skfem.ElementTriP2)]
    for m, E_ in cases:
        basis = Basis(m, E_())
        D = basis.get_dofs().all()
        A = laplace.assemble(basis)
        xs = 1.0 + basis.doflocs[0] * 2.0 - (basis.doflocs[-1] if basis.doflocs.shape[0] > 1 else 0.0) * 3.0
        b = np.zeros(basis.N)
        ctx.case({"coarsest": type(m).__name__, "element": E_.__name__, "interior_dofs": int(basis.N - len(D))},
                 nontrivial=True)
        ctx.count("patch:coarsest-mesh-full-dirichlet")
        for how in ("condense", "enforce"):
            try:
                sol = solve(*(condense(A, b, x=xs, D=D) if how == "condense" else enforce(A, b, x=xs, D=D)))
                err = float(np.abs(sol - xs).max())
            except Exception as ex:
                ctx.violation("solving with every DOF (or all but a few) prescribed raised " + exc_kind(ex),
                              {"mesh": type(m).__name__ + "()", "element": E_.__name__, "constrained_by": how,
                               "err": repr(ex)}, {"what": "raise"})
                continue
            if err > 1e-10:
                ctx.violation("patch test (linear solution, Dirichlet data on the whole boundary of a coarsest mesh): "
                              "the prescribed values are not returned",
                              {"mesh": type(m).__name__ + "()", "element": E_.__name__, "constrained_by": how,
                               "error": err, "x": xs.tolist()},
                              {"what": "patch", "element": E_.__name__, "problem": "poisson"})


def run(ctx):
    ctx.rule = ("(a) patch tests: Poisson / reaction-diffusion with polynomial exact solution of the element's degree, "
                "polynomial-complete elements (P1-P4, Q1, Q2, S2 on segments, triangles, tetrahedra, parallelogram/box "
                "cells; degree one on general convex quadrilaterals), random irregular renumbered meshes, random "
                "Dirichlet/Neumann splits of the boundary along facet sets, Dirichlet data from FacetBasis.project on "
                "get_dofs(facets); linear elasticity with vector P1/P2/Q2; sharp 1e-10 comparison with the nodal "
                "values; (b) L2 projection identity on whole mesh / subdomain / boundary part for every element "
                "family incl. curved second-order meshes. distinct = (mesh, element, data); non-trivial = >= 2 cells")
    ctx.trusted += ["Lean kernel; axioms propext/Classical.choice/Quot.sound",
                    "C01 (assembly sums), C05 (condense/expand) theorems are reused",
                    "hypothesis hGalerkin (a(u*, phi_i) = l(phi_i) on the kept rows) is explicit in C06_patch; its "
                    "derivation from the strong form (Green's identity) is not formalised",
                    "scipy spsolve"]
    ctx.assumptions += ["rounding: the patch test is evaluated at 1e-10 relative on meshes with dyadic coordinates"]
    if not getattr(ctx, "no_lean", False):
        ctx.prove(["SkfemVerif.Props.C06"], ["SkfemVerif/Props/C06.lean"])
    rng = ctx.rng
    try:
        coarsest_full_dirichlet(ctx)
    except Exception as ex:
        ctx.violation("coarsest-mesh patch tests raised " + exc_kind(ex), {"err": repr(ex)}, {"what": "raise"})
    n = ctx.scale(500, 4000)
    for it in range(n):
        if ctx.time_left(0.92) < 0:
            break
        r = rng.random()
        try:
            if r < 0.5:
                kind, ename, deg, perdir = rng.choice(COMPLETE)
                res = poisson_patch(ctx, rng, kind, ename, deg, perdir)
                tag = {"kind": "poisson", "element": ename}
            elif r < 0.62:
                res = elasticity_patch(ctx, rng)
                tag = {"kind": "elasticity"}
            else:
                res = projection_identity(ctx, rng)
                tag = {"kind": "projection"}
        except Exception as ex:
            if "Newton iteration" in repr(ex):
                ctx.count("newton-inverse-did-not-converge(skipped)")
                continue
            if isinstance(ex, NotImplementedError) and "quadrature" in repr(ex):
                ctx.count("default-order-beyond-tables(skipped)")     # composite elements with large maxdeg
                continue
            ctx.violation("end-to-end solve raised " + exc_kind(ex), {"err": repr(ex), "trace": exc_trace()},
                          {"what": "raise"})
            continue
        if res is None:
            continue
        ctx.case({"it": it, "seed": ctx.seed, **tag}, nontrivial=True, sample=tag if it < 3 else None)
        if res:
            ctx.violation(*res)
    if ctx.tier == "thorough" and not getattr(ctx, "no_lean", False):
        ctx.leanchecker(["SkfemVerif.Props.C06"])
