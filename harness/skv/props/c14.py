"""C14  Point location and point evaluation of discrete functions are exact."""
from __future__ import annotations

import ast
import inspect
import textwrap
from fractions import Fraction

import numpy as np

from .. import meshes, elements
from ..core import exc_kind, qstr, unq
from . import c14geo as G

EPS = float(np.finfo(np.float64).eps)
SIMPLEX = ("line", "tri", "tet")
NBLOCKS = {"quad": 2, "hex": 6, "wedge": 3}


# --------------------------------------------------------------------------
# reporting: one failing input per class of violation, so that different defects all get a replay

_SEEN = {}


def viol(ctx, what, replay, sig):
    what0 = {"finder-batch-raises": "finder-raises", "quadrature-exception": "interpolator-trailing-axes"
             }.get(sig.get("what"), sig.get("what"))
    key = (what0, sig.get("cause", "other") if what0 == "finder-raises" else None, sig.get("element"),
           sig.get("tensor"))
    _SEEN[key] = _SEEN.get(key, 0) + 1
    if _SEEN[key] > 1 and sig.get("cause") not in ("facet-roundoff", "roundoff-stagnation"):
        ctx.count("violation:further-inputs-of-a-reported-class")
        ctx._nviol += 1
        return
    ctx.violation(what, replay, sig)


# --------------------------------------------------------------------------
# helpers around the implementation

def sub_mesh(m, kind):
    """the simplex mesh whose finder the implementation uses"""
    if kind in ("tri", "tet", "line"):
        return m
    if kind == "quad":
        return m.to_meshtri()
    return m.to_meshtet()


def call_finder(finder, x):
    """x: (dim, P) array; returns (cells or None, error kind or None)"""
    try:
        r = finder(*[np.array(x[i], dtype=np.float64) for i in range(x.shape[0])])
        return np.asarray(r), None
    except (ValueError, IndexError) as ex:
        return None, type(ex).__name__
    except Exception as ex:      # anything else is not "raises because outside"
        return None, "other:" + type(ex).__name__ + ":" + str(ex)[:80]


class RecordingMapping:
    """proxy of a mapping that records the arguments and results of invF"""

    def __init__(self, mp):
        self._mp = mp
        self.calls = []

    def invF(self, x, tind=None):
        X = self._mp.invF(x, tind)
        self.calls.append((None if tind is None else np.array(tind).copy(), X.copy()))
        return X

    def __getattr__(self, name):
        return getattr(self._mp, name)


_INSIDE_CODE = {}


def inside_code(cls):
    """T3-style lift: the statements `eps = ...` and `inside = ...` of the inner `finder` of
    `cls.element_finder`, compiled from the live source, so the inside matrices handed to the model
    are computed by the code as it is NOW"""
    if cls in _INSIDE_CODE:
        return _INSIDE_CODE[cls]
    src = textwrap.dedent(inspect.getsource(cls.element_finder))
    tree = ast.parse(src)
    stmts = []
    for node in ast.walk(tree):
        if isinstance(node, ast.FunctionDef) and node.name == "finder":
            for st in node.body:
                if (isinstance(st, ast.Assign) and isinstance(st.targets[0], ast.Name)
                        and st.targets[0].id in ("eps", "inside")):
                    stmts.append(st)
    code = None
    if [s.targets[0].id for s in stmts] == ["eps", "inside"]:
        mod = ast.Module(body=stmts, type_ignores=[])
        ast.fix_missing_locations(mod)
        code = compile(mod, "<finder-inside>", "exec")
    _INSIDE_CODE[cls] = code
    return code


FALLBACK = {"used": False}


def inside_matrix(cls, X):
    code = inside_code(cls)
    if code is None:
        # the source no longer has the recognised `eps = ...; inside = ...` statements (e.g. the finder was
        # restructured): use the DOCUMENTED test instead - every barycentric coordinate >= -eps, evaluated in
        # the order of the pinned code.  A finder whose own test differs then disagrees with the model's
        # answer for these matrices (still a sound tie; entries within 1e-12 of the threshold are not compared)
        if X.shape[0] not in (2, 3):
            return None
        FALLBACK["used"] = True
        last = 1 - X[0]
        for i in range(1, X.shape[0]):
            last = last - X[i]
        lam = np.minimum(X.min(axis=0), last)
        FALLBACK["near"] = bool((np.abs(lam + EPS) < 1e-12).any())
        return lam >= -EPS
    env = {"np": np, "X": X}
    exec(code, env)
    return np.asarray(env["inside"]).astype(bool)


def exact_bary(verts, xi):
    """barycentric coordinates (Fractions) of the integer point xi in the simplex with integer vertices"""
    d = len(xi)
    A = [[Fraction(verts[j + 1][i] - verts[0][i]) for j in range(d)] for i in range(d)]
    b = [Fraction(xi[i] - verts[0][i]) for i in range(d)]
    M = [A[i] + [b[i]] for i in range(d)]
    for c in range(d):
        piv = next((r for r in range(c, d) if M[r][c] != 0), None)
        if piv is None:
            return None
        M[c], M[piv] = M[piv], M[c]
        for r in range(d):
            if r != c and M[r][c] != 0:
                f = M[r][c] / M[c][c]
                M[r] = [a - f * bb for a, bb in zip(M[r], M[c])]
    X = [M[i][d] / M[i][i] for i in range(d)]
    return [1 - sum(X)] + X


def classify_raise(sub, batch):
    """Why did the finder raise for a batch (dim x n) of points that all lie in the meshed domain?
    The second pass of the implementation is re-evaluated with the very same call
    (`invF(batch[:, None], arange(nt))`, bitwise the same numbers).  "facet-roundoff": at least one
    point fails the documented test `barycentric >= -eps` in floating point, every failing point
    fails by less than 1e-9, and in exact arithmetic every failing point lies in a sub-simplex within
    1e-9 (barycentric) of one of its facets — i.e. the absolute slack `eps` was smaller than the
    rounding error of invF for a point on (or within rounding of) a sub-simplex facet.
    Anything else (e.g. a raise although the documented test passes): "other"."""
    if sub.p.shape[0] == 1:
        return "other"
    mp = sub._mapping()
    nts = sub.t.shape[1]
    # the array exactly as the finder builds it from its arguments (contiguous)
    xs = np.array([np.array(batch[i], dtype=np.float64) for i in range(batch.shape[0])])
    X = mp.invF(xs[:, None], np.arange(nts))                     # dim x nts x n
    last = 1 - X[0]
    for i in range(1, X.shape[0]):
        last = last - X[i]                                       # 1 - X[0] - X[1] (- X[2]) as the code does
    lam = np.minimum(X.min(axis=0), last)                        # nts x n
    best = lam.max(axis=0)
    failing = np.nonzero(best < -EPS)[0]
    if len(failing) == 0 or (best < -1e-9).any():
        return "other"
    for j in failing:
        s = G.scale_bits(sub.p, batch[:, j])
        xi = tuple(G.to_int(v, s) for v in batch[:, j])
        ex_best = None
        for k in np.nonzero(lam[:, j] > -1e-6)[0]:
            verts = [tuple(G.to_int(v, s) for v in sub.p[:, q]) for q in sub.t[:, k]]
            lb = exact_bary(verts, xi)
            if lb is not None:
                mn = min(lb)
                ex_best = mn if ex_best is None else max(ex_best, mn)
        if ex_best is None or not (0 <= ex_best <= Fraction(1, 10 ** 9)):
            return "other"
    return "facet-roundoff"


def newton_sig(ex, basis, x, default):
    """signature of an exception met while probing: the Newton iteration of MappingIsoparametric.invF
    that stagnates at rounding level above its ABSOLUTE tolerance 1e-12 (thin sheared cells far from the
    origin) is told apart from everything else by replaying the iteration"""
    if "Newton iteration" not in str(ex):
        return default
    cause = "other"
    try:
        mp = basis.mapping
        cells, _ = call_finder(basis.mesh.element_finder(mapping=mp), x)
        if cells is not None:
            X = np.zeros((x.shape[0], x.shape[1], 1)) + .5
            xx = x[:, :, None]
            hist = []
            for _ in range(60):
                dX = np.einsum('ijkl,jkl->ikl', mp.invDF(X, cells), xx - mp.F(X, cells))
                X = np.clip(X + dX, 0., 1.)
                hist.append(float(np.abs(dX).sum(axis=(0, 2)).max()))
            res = np.abs(mp.F(X, cells) - xx).max() / (1 + np.abs(xx).max())
            if max(hist[-10:]) < 1e-9 and res < 1e-12:
                cause = "roundoff-stagnation"
    except Exception:
        pass
    return {"what": "invF-newton", "cause": cause}


# --------------------------------------------------------------------------
# correspondence

def corr_bary(ctx, n):
    """finder.bary: reference coordinates and the inside test of ONE simplex (observed through a
    one-cell mesh: the finder answers [0] or raises)"""
    rng = ctx.rng
    reqs, impl = [], []
    for _ in range(n):
        dim = rng.choice([1, 2, 2, 3, 3])
        while True:
            V = np.array([[rng.randint(-16, 16) / 8 for _ in range(dim)] for _ in range(dim + 1)]).T
            if abs(np.linalg.det(V[:, 1:] - V[:, :1])) > 1e-9:
                break
        if rng.random() < 0.4:
            V = G.affine_dyadic(rng, dim) @ V
        r = rng.random()
        if r < 0.5:
            w = G.dyadic_weights(rng, dim + 1, bits=4)
            x = G.combo(V, w)
        elif r < 0.7:
            w = G.dyadic_weights(rng, dim + 1, bits=3, positive=False)
            x = G.combo(V, w)
        else:
            w = [rng.randint(-8, 16) / 8 for _ in range(dim)]
            w = [1 - sum(w)] + w
            x = G.combo(V, w)
        cls = meshes.CLS[{1: "line", 2: "tri", 3: "tet"}[dim]]
        m = cls(V, np.arange(dim + 1, dtype=np.int32)[:, None])
        Ximpl = m._mapping().invF(x[:, None, None], np.array([0]))[:, 0, 0]
        cells, err = call_finder(m.element_finder(), x[:, None])
        reqs.append({"op": "finder.bary", "verts": [[qstr(v) for v in V[:, j]] for j in range(dim + 1)],
                     "x": [qstr(v) for v in x], "eps": qstr(EPS)})
        impl.append((dim, V, x, Ximpl, cells is not None, err))
    outs = ctx.driver.run(reqs)
    for rq, out, (dim, V, x, Ximpl, ins, err) in zip(reqs, outs, impl):
        if "error" in out:
            ctx.corr("finder.bary", False, rq, out, None)
            continue
        Xm = [float(v) for v in unq(out["X"])]
        lam = [Fraction(1) - sum(unq(out["X"]))] + list(unq(out["X"]))
        scale = 1 + max(abs(v) for v in Xm)
        ok = all(abs(a - b) <= 1e-11 * scale * 64 for a, b in zip(Xm, Ximpl))
        # the flag is compared away from the threshold only (the 1-D finder has no slack)
        margin = float(min(lam))
        if abs(margin) > 1e-9:
            ok = ok and (bool(out["inside"]) == bool(ins))
            ctx.count("corr.bary:flag-compared")
        else:
            ctx.count("corr.bary:on-boundary(flag not compared)")
        ctx.corr("finder.bary", ok, rq, out, {"X": Ximpl.tolist(), "inside": ins, "err": err})


def corr_decide(ctx, m, kind, x):
    """finder.decide: candidate list and inside matrices of the implementation fed to the model"""
    sub = sub_mesh(m, kind)
    cls = type(sub)
    rec = RecordingMapping(sub._mapping())
    fsub = sub.element_finder(mapping=rec)
    cells_sub, err_sub = call_finder(fsub, x)
    cells, err = call_finder(m.element_finder(), x)
    if not rec.calls:
        return
    cand = [int(v) for v in rec.calls[0][0]]
    ntsub = sub.t.shape[1]
    nt = m.t.shape[1]
    Xall = sub._mapping().invF(x[:, None], np.arange(ntsub))
    ins = inside_matrix(cls, Xall)
    if ins is None:
        ctx.corr("finder.decide", False, {"why": "inside statement not found in the source"}, None, None)
        return
    ins1 = inside_matrix(cls, rec.calls[0][1])
    consistent = np.array_equal(ins1, ins[cand])
    if len(rec.calls) > 1:
        # the second pass of the implementation itself
        ins = inside_matrix(cls, rec.calls[1][1])
    nb = ntsub // nt
    rq = {"op": "finder.decide", "nt": nt, "nb": nb, "npts": int(x.shape[1]), "cand": cand,
          "inside": ins.tolist(), "inside1": ins1.tolist()}
    out = ctx.driver.run([rq])[0]
    if cells is None:
        agree = out.get("raises") is True
    else:
        agree = out.get("cells") == [int(v) for v in cells]
        if not agree and "cells" in out and len(cells) == x.shape[1]:
            # a different choice among several cells that pass the test is as good (the property does
            # not say which of them is returned)
            allins = inside_matrix(cls, Xall)
            ok = True
            for p, k in enumerate(cells):
                subs = [b * nt + int(k) for b in range(nb)]
                ok = ok and 0 <= int(k) < nt and any(allins[j, p] or ins[j, p] for j in subs)
            if ok:
                agree = True
                ctx.count("corr.decide:other-valid-choice")
    if FALLBACK["used"]:
        ctx.notes["finder_inside_tie"] = ("inside statements not found in the live source: documented test "
                                          "(barycentric >= -eps) used for the matrices handed to the model")
        if not agree and FALLBACK.get("near"):
            ctx.count("corr.decide:threshold-inconclusive(fallback)")
            return
    ctx.corr("finder.decide", agree,
             {"mesh": meshes.mesh_descr(m), "x": x.tolist(), "cand": cand, "stages": len(rec.calls)},
             out, {"cells": None if cells is None else cells.tolist(), "err": err})
    ctx.count("corr.decide:stages=%d" % len(rec.calls))
    if not consistent:
        ctx.count("corr.decide:passes-differ-in-floating-point")


def corr_split(ctx, m, kind):
    sub = sub_mesh(m, kind)
    rq = {"op": "finder.split", "kind": kind, "t": m.t.T.tolist()}
    out = ctx.driver.run([rq])[0]
    # MeshTri1 / MeshTet1 sort the vertex numbers of every cell on construction (same simplex)
    agree = isinstance(out, list) and [sorted(c) for c in out] == [sorted(c) for c in sub.t.T.tolist()]
    ctx.corr("finder.split", agree, rq, out, sub.t.T.tolist())


def line_case(rng):
    m, info, dropped = G.gen_c14_mesh(rng, "line")
    if rng.random() < 0.5 and m.t.shape[1] >= 3:
        # more gaps: several components
        keep = [k for k in range(m.t.shape[1]) if rng.random() < 0.7]
        if len(keep) >= 1:
            t = m.t[:, keep]
            used = np.unique(t)
            remap = -np.ones(m.p.shape[1], dtype=np.int64)
            remap[used] = np.arange(len(used))
            m = type(m)(m.p[:, used], remap[t].astype(np.int32))
    p = m.p[0]
    lo, hi = p.min(), p.max()
    xs = []
    for _ in range(rng.randint(1, 8)):
        r = rng.random()
        if r < 0.4:
            xs.append(float(p[rng.randrange(len(p))]))
        elif r < 0.7:
            k = rng.randrange(m.t.shape[1])
            a, b = p[m.t[0, k]], p[m.t[1, k]]
            xs.append(float(a + (b - a) * rng.choice([0.25, 0.5, 0.125, 0.75])))
        elif r < 0.85:
            srt = np.sort(p)
            i = rng.randrange(len(srt) - 1)
            xs.append(float((srt[i] + srt[i + 1]) / 2))
        else:
            xs.append(float(rng.choice([lo - 1, hi + 1, lo - 2.0 ** -10, hi + 2.0 ** -10])))
    if rng.random() < 0.3:
        xs = xs + [rng.choice(xs)]
    return m, np.array(xs)


def corr_line(ctx, n):
    reqs, impl = [], []
    for _ in range(n):
        m, xs = line_case(ctx.rng)
        cells, err = call_finder(m.element_finder(), xs[None, :])
        reqs.append({"op": "finder.line", "p": [qstr(v) for v in m.p[0]], "t": m.t.T.tolist(),
                     "x": [qstr(v) for v in xs]})
        impl.append((cells, err, m, xs))
    outs = ctx.driver.run(reqs)
    for rq, out, (cells, err, m, xs) in zip(reqs, outs, impl):
        if cells is None:
            agree = out.get("raises") is True and not str(err).startswith("other")
        else:
            agree = out.get("cells") == [int(v) for v in cells]
            if not agree and "cells" in out and len(cells) == len(xs):
                # at a vertex shared by two cells either of them is a correct answer
                lo = np.minimum(m.p[0, m.t[0]], m.p[0, m.t[1]])
                hi = np.maximum(m.p[0, m.t[0]], m.p[0, m.t[1]])
                if all(0 <= int(k) < m.t.shape[1] and lo[int(k)] <= x <= hi[int(k)] for k, x in zip(cells, xs)):
                    agree = True
                    ctx.count("corr.line:other-valid-choice")
        ctx.corr("finder.line", agree, rq, out, {"cells": None if cells is None else cells.tolist(), "err": err})


def phis_of(basis, x, cells):
    pts = basis.mapping.invF(x[:, :, np.newaxis], tind=cells)
    return np.array([basis.elem.gbasis(basis.mapping, pts, k, tind=cells)[0]
                     for k in range(basis.Nbfun)])


def corr_probes(ctx, basis, x, info):
    """probes.assemble: the model's triplets (built from the cells, the DOF table and the basis
    values) as a dense matrix against the implementation's sparse matrix"""
    cells, err = call_finder(basis.mesh.element_finder(mapping=basis.mapping), x)
    if cells is None:
        return
    try:
        comp = int(np.prod(basis._base_tensor_order))
        A = basis.probes(x)
    except Exception:
        return
    phis = phis_of(basis, x, cells)
    if phis.size > 4000 or basis.N > 400:
        return
    rq = {"op": "probes.assemble", "Nbfun": int(basis.Nbfun), "comp": comp,
          "cells": [int(c) for c in cells], "dofs": basis.element_dofs.tolist(),
          "phis": [qstr(v) for v in phis.flatten().tolist()], "N": int(basis.N)}
    out = ctx.driver.run([rq])[0]
    if "error" in out:
        ctx.corr("probes.assemble", False, info, out, None)
        return
    D = np.zeros((comp * x.shape[1], basis.N))
    for r, c, v in out["dense"]:
        D[r, c] = float(Fraction(v))
    B = A.toarray()
    scale = 1 + np.abs(phis).max()
    agree = (A.shape == D.shape and np.abs(B - D).max() <= 1e-12 * scale
             and out["ntriplets"] == basis.Nbfun * comp * x.shape[1])
    ctx.corr("probes.assemble", bool(agree), info, {"dense-nnz": len(out["dense"])},
             {"shape": list(A.shape), "maxdiff": float(np.abs(B - D).max()) if A.shape == D.shape else None})


# --------------------------------------------------------------------------
# search: the finder

def finder_search(ctx, m, kind, info, dropped, npts):
    rng = ctx.rng
    pts = G.query_points(rng, m, dropped, n_in=npts, n_out=max(3, npts // 2))
    geo = G.Geometry(m, [x for x, _ in pts])
    if not geo.convex_ok():
        ctx.count("generator:rejected-nonconvex")
        return None
    sub = sub_mesh(m, kind)
    finder = m.element_finder()
    descr = meshes.mesh_descr(m)
    inside_pts, outside_pts = [], []

    def report_inside_raise(x, cat, err):
        xi = geo.ipoint(x)
        sig = {"what": "finder-raises", "cause": classify_raise(sub, x[:, None])}
        ctx.count("finder:raise-inside:" + sig["cause"])
        viol(ctx, f"element_finder raises {err} for a point of the meshed domain ({cat})",
                      {"mesh": descr, "kind": kind, "x": x.tolist(), "category": cat,
                       "cells_containing": geo.cells_containing(xi)}, sig)

    # --- single points
    for x, cat in pts:
        xi = geo.ipoint(x)
        cont = geo.cells_containing(xi)
        cells, err = call_finder(finder, x[:, None])
        is_in = bool(cont)
        ctx.case({"mesh": info, "x": x.tolist()}, nontrivial=True)
        ctx.count(f"finder:{kind}:{'in' if is_in else 'out'}:{cat}")
        if err is not None and err.startswith("other"):
            viol(ctx, "element_finder failed with an unexpected exception",
                          {"mesh": descr, "x": x.tolist(), "err": err}, {"what": "finder-exception"})
            continue
        if is_in:
            if cells is None:
                report_inside_raise(x, cat, err)
                continue
            k = int(cells[0])
            if len(cells) != 1 or not (0 <= k < geo.nt) or k not in cont:
                viol(ctx, "element_finder returns a cell that does not contain the point",
                              {"mesh": descr, "kind": kind, "x": x.tolist(), "category": cat, "returned": cells.tolist(),
                               "cells_containing": cont,
                               "margin": geo.margin(k, xi) if 0 <= k < geo.nt else None},
                              {"what": "finder-wrong-cell"})
                continue
            inside_pts.append(x)
        else:
            if cells is not None:
                k = int(cells[0])
                viol(ctx, "element_finder returns a cell for a point outside the mesh",
                              {"mesh": descr, "kind": kind, "x": x.tolist(), "category": cat, "returned": cells.tolist(),
                               "margin": geo.margin(k, xi) if 0 <= k < geo.nt else None},
                              {"what": "finder-no-raise"})
                continue
            outside_pts.append(x)
    # --- batches: any number, order, repetition
    if inside_pts:
        for _ in range(2):
            n = rng.randint(1, min(14, 2 * len(inside_pts)))
            batch = np.array([inside_pts[rng.randrange(len(inside_pts))] for _ in range(n)]).T
            cells, err = call_finder(finder, batch)
            ctx.case({"mesh": info, "batch": batch.tolist()}, nontrivial=n > 1)
            ctx.count("finder:batch-inside")
            if cells is None:
                cause = classify_raise(sub, batch)
                ctx.count("finder:batch-raise-inside:" + cause)
                viol(ctx, "element_finder raises for a batch of points that it locates one by one",
                              {"mesh": descr, "kind": kind, "batch": batch.tolist(), "err": err},
                              {"what": "finder-raises", "cause": cause, "batch": True})
                continue
            bad = len(cells) != n
            if not bad:
                for j in range(n):
                    k = int(cells[j])
                    if not (0 <= k < geo.nt) or not geo.contains(k, geo.ipoint(batch[:, j])):
                        bad = True
            if bad:
                viol(ctx, "element_finder returns a wrong cell inside a batch of points",
                              {"mesh": descr, "kind": kind, "batch": batch.tolist(), "returned": cells.tolist()},
                              {"what": "finder-batch-wrong-cell"})
        if outside_pts:
            n = rng.randint(1, min(8, len(inside_pts)))
            cols = [inside_pts[rng.randrange(len(inside_pts))] for _ in range(n)]
            cols.insert(rng.randint(0, n), outside_pts[rng.randrange(len(outside_pts))])
            batch = np.array(cols).T
            cells, err = call_finder(finder, batch)
            ctx.case({"mesh": info, "batch": batch.tolist()}, nontrivial=True)
            ctx.count("finder:batch-with-outside-point")
            if cells is not None or (err or "").startswith("other"):
                viol(ctx, "element_finder does not raise for a batch containing a point outside the mesh",
                              {"mesh": descr, "kind": kind, "batch": batch.tolist(),
                               "returned": None if cells is None else cells.tolist(), "err": err},
                              {"what": "finder-batch-no-raise"})
    return geo, inside_pts


# --------------------------------------------------------------------------
# search: probes / interpolator / point_source

def direct_eval(basis, cells, x, y):
    """Σ_k y[element_dofs[k, cell_p]] φ_k(invF(x_p)), point by point; returns
    (values of shape tensor + (P,), scale per point, worst residual of F(invF(x)) - x)"""
    mp = basis.mapping
    vals, scales, res = [], [], 0.0
    for p in range(x.shape[1]):
        k = int(cells[p])
        tind = np.array([k], dtype=np.int32)
        X = mp.invF(x[:, p:p + 1, None], tind=tind)
        r = np.abs(mp.F(X, tind=tind)[:, 0, 0] - x[:, p]).max() / (1 + np.abs(x[:, p]).max())
        res = max(res, float(r))
        val, sc = 0.0, 0.0
        for j in range(basis.Nbfun):
            phi = np.asarray(basis.elem.gbasis(mp, X, j, tind=tind)[0].value)[..., 0, 0]
            c = y[basis.element_dofs[j, k]]
            val = val + c * phi
            sc = sc + abs(c) * np.abs(phi).max()
        vals.append(np.asarray(val, dtype=np.float64))
        scales.append(sc)
    return np.stack(vals, axis=-1), np.array(scales), res


def is_nodal(elem):
    """scalar element with point-value DOFs at finite reference locations: phi_i(doflocs_j) = delta_ij,
    and (checked at a reference point) the nodal interpolant of an affine function is the function"""
    try:
        loc = np.asarray(elem.doflocs, dtype=np.float64)
        if not np.isfinite(loc).all():
            return False
        n = loc.shape[0]
        M = np.zeros((n, n))
        for i in range(n):
            v = np.asarray(elem.lbasis(loc.T.copy(), i)[0])
            if v.shape != (n,):
                return False
            M[i] = v
        if np.abs(M - np.eye(n)).max() > 1e-9:
            return False
        c = np.array([[0.3, 0.2, 0.25][:loc.shape[1]]]).T
        v = np.array([float(np.asarray(elem.lbasis(c, i)[0]).reshape(-1)[0]) for i in range(n)])
        if n == 1:
            return bool(abs(v.sum() - 1) < 1e-9)           # piecewise constants
        return bool(abs(v.sum() - 1) < 1e-9 and np.abs(v @ loc - c[:, 0]).max() < 1e-9)
    except Exception:
        return False


def well_shaped(m, kind):
    """all (sub-)simplices have volume >= 2% of diameter^dim and diameters within a factor 16"""
    sub = sub_mesh(m, kind)
    P = sub.p[:, sub.t]                                   # dim x (dim+1) x nt
    dim = P.shape[0]
    diam = np.zeros(P.shape[2])
    for a in range(dim + 1):
        for b in range(a + 1, dim + 1):
            diam = np.maximum(diam, np.sqrt(((P[:, a] - P[:, b]) ** 2).sum(axis=0)))
    if dim == 1:
        return bool(diam.max() <= 16 * diam.min())
    A = np.array([P[:, j + 1] - P[:, 0] for j in range(dim)])          # dim x dim x nt
    vol = np.abs(np.linalg.det(np.transpose(A, (2, 0, 1))))
    return bool((vol >= 0.02 * diam ** dim).all() and diam.max() <= 16 * diam.min())


def nodal_scalar_of(e):
    """(scalar nodal element, "scalar" | "vector") if e is such an element, possibly wrapped in
    ElementDG and / or ElementVector; else (None, None)"""
    mode = "scalar"
    inner = e
    if isinstance(inner, elements.ElementDG):
        inner = inner.elem
    if isinstance(inner, elements.ElementVector):
        mode = "vector"
        inner = inner.elem
        if isinstance(inner, elements.ElementDG):
            inner = inner.elem
    if elements.family(inner) != "h1" or not is_nodal(inner):
        return None, None
    return inner, mode


def probes_search(ctx, m, kind, info, geo, inside_pts, e, ename, npoints=None, xfixed=None, yfixed=None):
    from skfem import Basis
    rng = ctx.rng
    descr = meshes.mesh_descr(m)
    base = {"mesh": descr, "kind": kind, "element": ename}
    try:
        basis = Basis(m, e, intorder=rng.choice([None, None, 2, 3, 4]))
    except Exception as ex:
        ctx.count("probes:basis-not-constructible")
        return
    nqp = basis.X.shape[-1]
    # number of points: sometimes exactly the number of quadrature points, sometimes one
    r = rng.random()
    n = nqp if r < 0.3 else (1 if r < 0.45 else rng.randint(1, 12))
    if npoints is not None:
        n = nqp if npoints == "nqp" else npoints
    fam = elements.family(e)
    if fam == "global":
        # ElementGlobal re-solves a Vandermonde system per call (20 ms): few points; its power basis in
        # physical coordinates is ill-conditioned on anisotropic cells (differences of 1e-6 between two
        # evaluations of the same function), which is not what this property is about
        if "affine" in info or not well_shaped(m, kind):
            ctx.count("probes:global-element-skipped-on-anisotropic-mesh")
            return
        n = min(n, 2)
    x = np.array([inside_pts[rng.randrange(len(inside_pts))] for _ in range(n)]).T
    y = np.array([rng.randint(-8, 8) / 4 for _ in range(basis.N)])
    if xfixed is not None:
        x = np.array(xfixed, dtype=np.float64)
        n = x.shape[1]
    if yfixed is not None and len(yfixed) == basis.N:
        y = np.array(yfixed, dtype=np.float64)
    ctx.case({"mesh": info, "element": ename, "x": x.tolist()}, nontrivial=True,
             sample={"mesh": info, "element": ename, "npoints": n})
    ctx.count(f"probes:{kind}:{fam}")
    inp = dict(base, x=x.tolist(), y=y.tolist())
    cells, err = call_finder(m.element_finder(mapping=basis.mapping), x)
    if cells is None:
        return           # reported by the finder search
    try:
        A = basis.probes(x)
        out = A @ y
        tensor = tuple(basis._base_tensor_order)
    except NotImplementedError:
        ctx.count("probes:unsupported(NotImplementedError)")
        return
    except Exception as ex:
        viol(ctx, "probes raises " + exc_kind(ex) + " for points of the meshed domain",
             dict(inp, err=repr(ex)[:300]),
             newton_sig(ex, basis, x, {"what": "probes-exception", "element": ename.split("(")[0]}))
        return
    comp = int(np.prod(tensor))
    if A.shape != (comp * n, basis.N):
        viol(ctx, "probes returns a matrix of the wrong shape", dict(inp, shape=list(A.shape)),
                      {"what": "probes-shape"})
        return
    try:
        want, scales, res = direct_eval(basis, cells, x, y)
    except Exception as ex:
        ctx.count("probes:direct-evaluation-failed:" + exc_kind(ex))
        if "Newton iteration" in str(ex):
            viol(ctx, "invF raises for a located point", dict(inp, err=repr(ex)[:300]),
                 newton_sig(ex, basis, x, {"what": "invF-exception"}))
        return
    if res > 1e-9:
        viol(ctx, "invF does not invert the mapping at a located point (residual %.2e)" % res, inp,
                      {"what": "invF-residual"})
        return
    if kind in SIMPLEX:
        # affine cells: the pulled-back point against exact barycentric coordinates
        Xf = basis.mapping.invF(x[:, :, None], tind=cells)[:, :, 0]
        for j in range(n):
            verts = [geo.P[v] for v in m.t[:, int(cells[j])]]
            lb = exact_bary(verts, geo.ipoint(x[:, j]))
            Xe = np.array([float(v) for v in lb[1:]])
            ctx.count("oracle:exact-invF")
            if np.abs(Xf[:, j] - Xe).max() > 1e-9 * (1 + np.abs(Xe).max()):
                viol(ctx, "mapping.invF differs from the exact reference coordinates of the point",
                     dict(inp, point=j, got=Xf[:, j].tolist(), want=Xe.tolist()), {"what": "invF-value"})
                break
    rtol = 1e-6 if fam == "global" else 1e-9
    tol = rtol * (1 + scales)
    got = np.asarray(out).reshape(tensor + (n,))
    if not (np.abs(got - want) <= tol).all():
        viol(ctx, "probes(x) @ y differs from the local expansion of the located cell",
                      dict(inp, cells=cells.tolist(), got=got.tolist(), want=want.tolist()),
                      {"what": "probes-value", "family": fam})
        return
    # interpolator: same values, tensor shape
    try:
        u = basis.interpolator(y)
        got2 = np.asarray(u(x))
    except Exception as ex:
        viol(ctx, "interpolator raises " + exc_kind(ex), dict(inp, err=repr(ex)[:300]),
             newton_sig(ex, basis, x, {"what": "interpolator-exception"}))
        return
    if got2.shape != tensor + (n,) or not (np.abs(got2 - want) <= tol).all():
        viol(ctx, "interpolator(y)(x) differs from the local expansion of the located cell / has the wrong shape",
                      dict(inp, got=got2.tolist(), want=want.tolist(), shape=list(got2.shape)),
                      {"what": "interpolator-value", "family": fam})
        return
    # trailing axes: x of shape (dim, a, b)
    for a in range(2, n + 1):
        if n % a == 0 and a < n:
            b = n // a
            ctx.count("interpolator:trailing-axes:" + ("scalar" if not tensor else "tensor"))
            try:
                got3 = np.asarray(u(x.reshape(x.shape[0], a, b)))
                ok = got3.shape == tensor + (a, b) and (np.abs(got3.reshape(tensor + (n,)) - want) <= tol).all()
                msg = "wrong values / shape %s" % (got3.shape,)
            except Exception as ex:
                ok, msg = False, "raises " + exc_kind(ex) + ": " + str(ex)[:120]
            if not ok:
                viol(ctx, "interpolator(y)(x) with x of shape (dim, a, b): " + msg,
                              dict(inp, a=a, b=b), {"what": "interpolator-trailing-axes", "tensor": bool(tensor)})
            break
    # order / repetition: a permuted, partly repeated batch gives the permuted values wherever the
    # located cell is the same
    perm = [rng.randrange(n) for _ in range(rng.randint(1, n + 2))]
    xp = x[:, perm]
    cells_p, _ = call_finder(m.element_finder(mapping=basis.mapping), xp)
    if cells_p is not None:
        try:
            gotp = np.asarray(basis.probes(xp) @ y).reshape(tensor + (len(perm),))
            same = np.array([int(cells_p[j]) == int(cells[perm[j]]) for j in range(len(perm))])
            if not (np.abs(gotp - want[..., perm]) <= tol[perm])[..., same].all():
                viol(ctx, "probes of a reordered / repeated batch differs from the reordered values",
                              dict(inp, perm=perm), {"what": "probes-order"})
        except Exception as ex:
            viol(ctx, "probes raises on a reordered / repeated batch: " + exc_kind(ex), dict(inp, perm=perm),
                 newton_sig(ex, basis, xp, {"what": "probes-exception", "element": ename.split("(")[0]}))
    # point_source: one point at a time, twice in a row with different points (stale caches)
    for j in ([0] if n == 1 else [0, n - 1]):
        try:
            ps = basis.point_source(x[:, j])
            v = float(ps @ y)
        except Exception as ex:
            viol(ctx, "point_source raises " + exc_kind(ex), dict(inp, point=j, err=repr(ex)[:200]),
                 newton_sig(ex, basis, x[:, j:j + 1], {"what": "point-source-exception"}))
            break
        c1, _ = call_finder(m.element_finder(mapping=basis.mapping), x[:, j:j + 1])
        w1, s1, _ = direct_eval(basis, c1, x[:, j:j + 1], y)
        w0 = float(np.asarray(w1).reshape(-1)[0])
        ctx.count("point_source")
        if ps.shape != (basis.N,) or abs(v - w0) > rtol * (1 + s1[0]):
            viol(ctx, "point_source(x) . y differs from the value of the local expansion at x",
                          dict(inp, point=j, got=v, want=w0), {"what": "point-source-value", "family": fam})
            break
    # independent oracles (no basis evaluation of the implementation involved in the expectation)
    try:
        scal, mode = nodal_scalar_of(e)
        if scal is not None and scal.doflocs.shape[0] > 1:
            # the nodal interpolant of a global affine function is the function, whatever cell is located
            c = np.array([rng.randint(-4, 4) / 2 for _ in range(m.p.shape[0] + 1)])
            lin = c[0] + c[1:] @ basis.doflocs
            if mode == "vector":
                dim = m.p.shape[0]
                compof = np.zeros(basis.N, dtype=np.int64)
                for i in range(basis.Nbfun):
                    compof[basis.element_dofs[i]] = i % dim
                yl = (compof + 1) * lin
                wl = np.array([(i + 1) * (c[0] + c[1:] @ x) for i in range(dim)])
            else:
                yl = lin
                wl = c[0] + c[1:] @ x
            gl = np.asarray(basis.probes(x) @ yl).reshape(wl.shape)
            ctx.count("oracle:affine-reproduction:" + mode)
            if np.abs(gl - wl).max() > 1e-9 * (1 + np.abs(wl).max() + np.abs(yl).max()):
                viol(ctx, "probing the nodal interpolant of an affine function does not return the function",
                              dict(base, x=x.tolist(), coeffs=c.tolist(), got=gl.tolist(), want=wl.tolist()),
                              {"what": "affine-reproduction"})
        if scal is not None and mode == "scalar" and scal.doflocs.shape[0] == 1 and basis.N == m.t.shape[1]:
            # piecewise constants: y = cell number; the value must be the number of a cell containing the point
            yc = np.zeros(basis.N)
            yc[basis.element_dofs[0]] = np.arange(m.t.shape[1])
            gc = np.asarray(basis.probes(x) @ yc)
            for j in range(n):
                cont = geo.cells_containing(geo.ipoint(x[:, j]))
                ctx.count("oracle:piecewise-constant")
                if int(round(gc[j])) not in cont or abs(gc[j] - round(gc[j])) > 1e-12:
                    viol(ctx, "probing the cell-number function gives a cell that does not contain the point",
                                  dict(base, x=x[:, j].tolist(), got=float(gc[j]), cells_containing=cont),
                                  {"what": "piecewise-constant"})
                    break
    except Exception as ex:
        viol(ctx, "probes raises " + exc_kind(ex) + " for points of the meshed domain (second call)",
             dict(inp, err=repr(ex)[:300]),
             newton_sig(ex, basis, x, {"what": "probes-exception", "element": ename.split("(")[0]}))
    # probing at the mapped quadrature points agrees with interpolate
    flat = None
    try:
        xq = basis.global_coordinates().value            # dim x nt x nq
        nt, nq = xq.shape[1], xq.shape[2]
        if nt * nq <= 600:
            ref = basis.interpolate(y)
            refv = np.asarray(ref.value if hasattr(ref, "value") else ref[0].value)     # tensor + (nt, nq)
            flat = xq.reshape(xq.shape[0], -1)
            gq = np.asarray(basis.probes(flat) @ y).reshape(tensor + (nt, nq))
            gq2 = np.asarray(u(xq))
            qgeo = G.Geometry(m, [flat])
            strict = np.array([[qgeo.strictly_inside(k, qgeo.ipoint(xq[:, k, q])) for q in range(nq)]
                               for k in range(nt)])
            sc = 10 * rtol * (1 + np.abs(refv).max() + np.abs(y).max())
            ctx.count("quadrature-points-vs-interpolate")
            if strict.any() and (np.abs(gq - refv)[..., strict].max() > sc):
                viol(ctx, "probes at the mapped quadrature points differs from basis.interpolate(y)",
                              dict(base, y=y.tolist(), maxdiff=float(np.abs(gq - refv)[..., strict].max())),
                              {"what": "quadrature-vs-interpolate", "family": fam})
            elif gq2.shape != refv.shape or (strict.any() and np.abs(gq2 - refv)[..., strict].max() > sc):
                viol(ctx, "interpolator(y) applied to the array of global quadrature points (dim, nt, nq) "
                              "differs from basis.interpolate(y) / has the wrong shape",
                              dict(base, y=y.tolist(), shape=list(gq2.shape)),
                              {"what": "interpolator-trailing-axes", "tensor": bool(tensor)})
    except NotImplementedError:
        pass
    except Exception as ex:
        sig = {"what": "quadrature-exception", "element": ename.split("(")[0], "tensor": bool(tensor)}
        if flat is not None and isinstance(ex, ValueError) and "outside" in str(ex):
            # the finder raised for a quadrature point: the same classification as in the finder search
            sig = {"what": "finder-raises", "cause": classify_raise(sub_mesh(m, kind), flat), "batch": True}
            ctx.count("finder:raise-at-quadrature-points:" + sig["cause"])
        if flat is not None:
            sig = newton_sig(ex, basis, flat, sig)
        viol(ctx, "probing at the mapped quadrature points raises " + exc_kind(ex),
                      dict(base, y=y.tolist(), err=repr(ex)[:300]), sig)
    return basis, x


# --------------------------------------------------------------------------

def witnesses(ctx):
    """the failing inputs of the defects found on the pinned tree, through the same oracles"""
    from skfem import (MeshLine1, MeshTri1, ElementLinePp, ElementTriN3, ElementTriP1, ElementVector,
                       ElementTriRT0)
    # FC14a: right end point of a component of a 1-D mesh with a gap
    m = MeshLine1(np.array([[0., 1., 2., 3.]]), np.array([[0, 2], [1, 3]], dtype=np.int32))
    info = {"kind": "line", "gen": "witness-gap"}
    res = finder_search(ctx, m, "line", info, [], npts=9)
    for x in (1.0, 3.0, 0.0, 2.0):
        cells, err = call_finder(m.element_finder(), np.array([[x]]))
        ctx.case({"witness": "line-gap", "x": x})
        if cells is None or int(cells[0]) != (0 if x <= 1 else 1):
            viol(ctx, "1-D element_finder raises for a point of the mesh",
                          {"mesh": meshes.mesh_descr(m), "kind": "line", "x": [x], "err": err,
                           "returned": None if cells is None else cells.tolist()},
                          {"what": "finder-raises", "cause": "other", "kind": "line"})
    # strongly sheared quadrilaterals (one diagonal less than half the other, either one): finder through the split
    import skfem as _sk
    for shear_ in (1.5, -1.5, 1.25):
        mq = _sk.MeshQuad1.init_tensor(np.array([0., 0.5, 1., 1.5, 2.]), np.array([0., 0.5, 1., 1.5]))
        pq = mq.p.copy()
        pq[0] = pq[0] + shear_ * pq[1]
        for flip in (False, True):
            tq = mq.t[[1, 2, 3, 0]] if flip else mq.t          # both diagonals take the role of "0-2"
            mqs = _sk.MeshQuad1(pq, tq)
            ctx.case({"witness": "sheared-quads", "shear": shear_, "rotated-local-order": flip}, nontrivial=True)
            finder_search(ctx, mqs, "quad", {"kind": "quad", "gen": "witness-sheared"}, [], npts=24)
            corr_split(ctx, mqs, "quad")
    # F8 (ElementLinePp table cache), FC14b (trailing axes, tensor valued), FC14c (ElementTriN3)
    m1 = MeshLine1(np.array([[0., 0.25, 0.75, 1.5]]), np.array([[0, 1, 2], [1, 2, 3]], dtype=np.int32))
    pts1 = [np.array([v]) for v in (0.125, 0.5, 0.625, 1.0, 1.25, 0.0, 1.5)]
    g1 = G.Geometry(m1, pts1)
    for npoints in ("nqp", 1, 1, 3):
        probes_search(ctx, m1, "line", {"kind": "line", "gen": "witness"}, g1, pts1, ElementLinePp(3),
                      "ElementLinePp(3)", npoints=npoints)
    m2 = MeshTri1().refined(1)
    pts2 = [np.array(v) for v in ((0.25, 0.25), (0.5, 0.125), (0.75, 0.125), (0.125, 0.625), (0.5, 0.5),
                                  (0.0, 1.0), (0.3125, 0.4375))]
    g2 = G.Geometry(m2, pts2)
    for e, name in ((ElementVector(ElementTriP1()), "ElementVector(ElementTriP1)"),
                    (ElementTriRT0(), "ElementTriRT0"), (ElementTriN3(), "ElementTriN3")):
        probes_search(ctx, m2, "tri", {"kind": "tri", "gen": "witness"}, g2, pts2, e, name, npoints=6)


def large_batches(ctx):
    """any NUMBER of query points: one call with many thousands of points (beyond any internal block size) gives,
    row for row, what the same points give in small batches - scalar, vector and tensor valued"""
    import skfem
    from skfem import Basis, ElementVector
    rng = np.random.RandomState(ctx.seed + 14)
    cases = [(skfem.MeshTri1().refined(2), ElementVector(skfem.ElementTriP1()), "ElementVector(ElementTriP1)"),
             (skfem.MeshTri1().refined(2), skfem.ElementTriP2(), "ElementTriP2"),
             (skfem.MeshQuad1().refined(1), ElementVector(skfem.ElementQuad1()), "ElementVector(ElementQuad1)"),
             (skfem.MeshTet1().refined(1), ElementVector(skfem.ElementTetP1()), "ElementVector(ElementTetP1)"),
             (skfem.MeshTri1().refined(1), skfem.ElementTriRT1(), "ElementTriRT1")]
    for m, e, name in cases[:(3 if ctx.tier == "quick" else 5)]:
        basis = Basis(m, e)
        for npts in ((17000,) if ctx.tier == "quick" else (16385, 20000, 40000)):
            # (off every facet of these meshes: coordinates k/256 + an offset that no sum or difference cancels)
            x = (rng.randint(1, 255, size=(m.p.shape[0], npts))
                 + np.array([0.37, 0.11, 0.23])[:m.p.shape[0], None]) / 256.0
            y = rng.randint(-8, 8, size=basis.N) / 4.0
            ctx.case({"large-batch": name, "npts": npts}, nontrivial=True)
            ctx.count("probes:large-batch")
            try:
                big = basis.probes(x) @ y
                ncomp = len(big) // npts
                small = np.zeros_like(big).reshape(ncomp, npts)
                step = 4000
                for a in range(0, npts, step):
                    part = basis.probes(x[:, a:a + step]) @ y
                    small[:, a:a + step] = part.reshape(ncomp, -1)
                err = float(np.abs(big.reshape(ncomp, npts) - small).max())
                u = basis.interpolator(y)(x)
                err2 = float(np.abs(np.asarray(u).reshape(ncomp, npts) - small).max())
                if err > 1e-12 or err2 > 1e-12:
                    viol(ctx, "probes / interpolator on a large batch of points differ from the same points in small "
                         "batches", {"mesh": type(m).__name__ + " (library default, refined)", "element": name,
                                     "npts": npts, "error_probes": err, "error_interpolator": err2},
                         {"what": "probes-large-batch", "element": name.split("(")[0]})
            except Exception as ex:
                viol(ctx, "probes on a large batch raised " + exc_kind(ex), {"element": name, "npts": npts,
                                                                             "err": repr(ex)},
                     {"what": "probes-raise", "element": name})


def rectangular_tensors(ctx):
    """tensor valued bases whose component shape is NOT square (2x3, 3x2, 1x2): interpolator at the quadrature
    points (flat and with trailing axes) = interpolate, component by component, with the component axes in
    the order (row, column)"""
    import skfem
    from skfem import Basis, ElementVector
    cases = [(skfem.MeshTri1().refined(1), lambda: ElementVector(ElementVector(skfem.ElementTriP1(), 3), 2), (2, 3)),
             (skfem.MeshTet1(), lambda: ElementVector(ElementVector(skfem.ElementTetP1(), 2), 3), (3, 2))]
    rs = np.random.RandomState(ctx.seed + 141)
    for m, mk, shp in cases:
        try:
            basis = Basis(m, mk())
            y = rs.randint(-8, 8, size=basis.N) / 4.0
            ref = np.asarray(basis.interpolate(y).value)                 # shp + (nt, nq)
            xq = basis.global_coordinates().value                        # dim x nt x nq
            ctx.case({"rectangular-tensor": list(shp), "mesh": type(m).__name__}, nontrivial=True)
            ctx.count("interpolator:rectangular-tensor")
            flat = np.asarray(basis.interpolator(y)(xq.reshape(xq.shape[0], -1)))
            trail = np.asarray(basis.interpolator(y)(xq))
            ok = ref.shape[:2] == shp and flat.shape == shp + (xq.shape[1] * xq.shape[2],) and trail.shape == ref.shape \
                and np.allclose(flat.reshape(ref.shape), ref, atol=1e-12) and np.allclose(trail, ref, atol=1e-12)
            if not ok:
                viol(ctx, "interpolator of a tensor valued basis with a non-square component shape differs from "
                     "interpolate at the quadrature points (component axes, values)",
                     {"mesh": type(m).__name__, "components": list(shp), "shape_flat": list(flat.shape),
                      "shape_trailing_axes": list(trail.shape), "shape_interpolate": list(ref.shape)},
                     {"what": "interpolator-tensor-shape", "components": list(shp)})
        except Exception as ex:
            viol(ctx, "interpolator of a rectangular tensor valued basis raised " + exc_kind(ex),
                 {"components": list(shp), "err": repr(ex)}, {"what": "probes-raise", "element": "nested-vector"})


def parse_element(name):
    """'ElementVector(ElementTriP1)', 'ElementLinePp(3)', 'ElementDG(ElementTriP1)' -> element"""
    from skfem import element as E
    name = name.strip()
    if "(" not in name:
        return getattr(E, name)()
    head, rest = name.split("(", 1)
    args = rest.rsplit(")", 1)[0]
    parts, depth, cur = [], 0, ""
    for ch in args:
        if ch == "," and depth == 0:
            parts.append(cur)
            cur = ""
        else:
            depth += ch == "("
            depth -= ch == ")"
            cur += ch
    if cur.strip():
        parts.append(cur)
    vals = [int(q) if q.strip().lstrip("-").isdigit() else parse_element(q) for q in parts]
    return getattr(E, head)(*vals)


def replay(ctx, rp):
    """re-evaluate one recorded failing input (finder point / batch, or an element probed at given points)"""
    _SEEN.clear()
    inp = rp["input"]
    md = inp["mesh"]
    kind = {"MeshLine1": "line", "MeshTri1": "tri", "MeshQuad1": "quad", "MeshTet1": "tet", "MeshHex1": "hex",
            "MeshWedge1": "wedge"}[md["cls"]]
    m = meshes.CLS[kind](np.array(md["p"], dtype=np.float64), np.array(md["t"], dtype=np.int32))
    dim = m.p.shape[0]
    cols = []
    for key in ("x", "batch"):
        if inp.get(key) is not None:
            a = np.array(inp[key], dtype=np.float64)
            a = a.reshape(dim, -1)
            cols.append(a)
    xs = np.hstack(cols) if cols else np.zeros((dim, 0))
    geo = G.Geometry(m, [xs] if xs.size else [])
    finder = m.element_finder()
    info = {"kind": kind, "gen": "replay"}
    for a in cols:
        cells, err = call_finder(finder, a)
        allin = all(geo.cells_containing(geo.ipoint(a[:, j])) for j in range(a.shape[1]))
        ctx.case({"replay": a.tolist()})
        rpl = {"mesh": md, "kind": kind, "x": a.tolist(), "err": err,
               "returned": None if cells is None else cells.tolist()}
        if allin and cells is None:
            viol(ctx, "element_finder raises for points of the meshed domain", rpl,
                 {"what": "finder-raises", "cause": classify_raise(sub_mesh(m, kind), a),
                  **({"kind": "line"} if kind == "line" else {})})
        elif allin and any(not geo.contains(int(k), geo.ipoint(a[:, j])) for j, k in enumerate(cells)):
            viol(ctx, "element_finder returns a cell that does not contain the point", rpl,
                 {"what": "finder-wrong-cell"})
        elif not allin and cells is not None:
            viol(ctx, "element_finder returns cells although a point lies outside the mesh", rpl,
                 {"what": "finder-no-raise"})
    if inp.get("element"):
        e = parse_element(inp["element"])
        if xs.shape[1] == 0:
            c = m.p[:, m.t].mean(axis=1)
            xs = c[:, :6]
            geo = G.Geometry(m, [xs])
        probes_search(ctx, m, kind, info, geo, [xs[:, j] for j in range(xs.shape[1])], e, inp["element"],
                      xfixed=xs if "x" in inp else None, yfixed=inp.get("y"))


def run(ctx):
    _SEEN.clear()
    ctx.rule = ("meshes: the six first-order classes, convex planar-faced cells only (checked exactly): tensor / "
                "Delaunay / refined / graded axes / general quadrilaterals / extruded and frustum hexahedra and "
                "prisms, then optionally holes, notches, slits (non-convex domains), anisotropic scaling 2^-5..2^3 "
                "and shear, vertex renumbering, cell permutation, local re-ordering. query points (dyadic, exact): "
                "vertices, points of facets and edges, interior points, points in holes / notches, reflected across "
                "boundary facets, around the bounding box, far away; singly and in batches with repetitions and a "
                "point outside. oracle: integer-arithmetic containment in the convex hull of the cell's vertices. "
                "elements: the whole pool incl. ElementVector / ElementDG wrappers, H(div), H(curl), tensor valued; "
                "expectation = sum_k y[element_dofs[k, cell]] * gbasis_k(invF(x)) of the located cell, plus "
                "basis-independent oracles (affine reproduction, cell-number function) and interpolate() at the "
                "mapped quadrature points. distinct = (mesh, point / batch / element)")
    ctx.trusted += ["Lean kernel; axioms propext/Classical.choice/Quot.sound",
                    "model Skv.finder/finderSplit/insideTri/insideTet/lineFinder/splitCells/probeTriplets hand-written; "
                    "tied by finder.decide (inside statement lifted from the live source by AST), finder.bary, "
                    "finder.line, finder.split, probes.assemble",
                    "scipy cKDTree (abstracted: theorems hold for any candidate list)",
                    "direct evaluation uses the library's gbasis and invF on the located cell (invF checked by "
                    "the residual F(invF(x)) - x; C09/C10 cover them)"]
    ctx.assumptions += ["cells are convex with planar faces; points within machine precision of a facet may be "
                        "assigned to either adjacent cell",
                        "not proved: the hexahedron / prism split tiles the cell (searched), Newton convergence "
                        "of MappingIsoparametric.invF (searched)"]
    if not getattr(ctx, "no_lean", False):
        ctx.prove(["SkfemVerif.Props.C14"], ["SkfemVerif/Props/C14.lean"])
    have_driver = ctx.driver.available()
    if not have_driver:
        ctx.broken.append({"kind": "driver-missing"})
    rng = ctx.rng
    # ---- correspondence on dedicated inputs
    if have_driver:
        corr_bary(ctx, ctx.scale(80, 400))
        corr_line(ctx, ctx.scale(60, 400))
    # ---- 1-D search with gaps (dedicated: the generic loop sees fewer line meshes)
    for _ in range(ctx.scale(60, 400)):
        m, xs = line_case(rng)
        geo = G.Geometry(m, [xs[None, :]])
        finder = m.element_finder()
        for x in xs:
            cont = geo.cells_containing(geo.ipoint([x]))
            cells, err = call_finder(finder, np.array([[x]]))
            ctx.case({"line": m.p.tolist(), "t": m.t.tolist(), "x": x}, nontrivial=True)
            ctx.count("finder:line:" + ("in" if cont else "out"))
            rp = {"mesh": meshes.mesh_descr(m), "kind": "line", "x": [float(x)], "cells_containing": cont,
                  "returned": None if cells is None else cells.tolist(), "err": err}
            if cont and cells is None:
                viol(ctx, "1-D element_finder raises for a point of the mesh", rp,
                              {"what": "finder-raises", "cause": "other", "kind": "line"})
            elif cont and int(cells[0]) not in cont:
                viol(ctx, "1-D element_finder returns a cell that does not contain the point", rp,
                              {"what": "finder-wrong-cell"})
            elif not cont and cells is not None:
                viol(ctx, "1-D element_finder returns a cell for a point outside the mesh", rp,
                              {"what": "finder-no-raise"})
        cells, err = call_finder(finder, xs[None, :])
        allin = all(geo.cells_containing(geo.ipoint([x])) for x in xs)
        if allin and (cells is None or len(cells) != len(xs) or any(
                not geo.contains(int(k), geo.ipoint([x])) for k, x in zip(cells, xs))):
            viol(ctx, "1-D element_finder fails on a batch of points of the mesh",
                          {"mesh": meshes.mesh_descr(m), "x": xs.tolist(), "err": err,
                           "returned": None if cells is None else cells.tolist()}, {"what": "finder-batch-raises"})
        if not allin and cells is not None:
            viol(ctx, "1-D element_finder does not raise for a batch with a point outside the mesh",
                          {"mesh": meshes.mesh_descr(m), "x": xs.tolist(), "returned": cells.tolist()},
                          {"what": "finder-batch-no-raise"})
    # ---- fixed witnesses of the defects this check found on the pinned tree (first inputs of every run)
    witnesses(ctx)
    try:
        rectangular_tensors(ctx)
    except Exception as ex:
        viol(ctx, "rectangular tensor check raised " + exc_kind(ex), {"err": repr(ex)}, {"what": "probes-raise"})
    try:
        large_batches(ctx)
    except Exception as ex:
        viol(ctx, "large-batch probing raised " + exc_kind(ex), {"err": repr(ex)}, {"what": "probes-raise"})
    # ---- main loop: meshes of all kinds
    nmesh = ctx.scale(400, 6000)
    rr = {k: rng.randrange(100) for k in meshes.FIRST_ORDER}
    kinds = meshes.FIRST_ORDER
    it = 0
    # the search is time-boxed (until 0.55 of the budget, at least 0.3 of it after the proof layer); at least two meshes of
    # every kind are always explored
    stop_at = max(0.55 * ctx.budget, ctx.elapsed() + 0.3 * ctx.budget)
    while it < nmesh and (ctx.elapsed() < stop_at or it < 2 * len(kinds)):
        kind = kinds[it % len(kinds)] if it < 2 * len(kinds) else rng.choice(kinds)
        it += 1
        try:
            m, info, dropped = G.gen_c14_mesh(rng, kind, plain=(rng.random() < 0.15))
        except Exception as ex:
            ctx.count("generator:failed")
            continue
        res = finder_search(ctx, m, kind, info, dropped, npts=ctx.scale(12, 18))
        if res is None:
            continue
        geo, inside_pts = res
        ctx.count("mesh:" + kind + ":" + info.get("gen", "") + ("+holes" if "holes" in info else "")
                  + ("+affine" if "affine" in info else ""))
        if have_driver and inside_pts:
            if kind != "line":
                # batches with and without an outside point
                n = rng.randint(1, 6)
                cols = [inside_pts[rng.randrange(len(inside_pts))] for _ in range(n)]
                if rng.random() < 0.3:
                    lo, hi = m.p.min(axis=1), m.p.max(axis=1)
                    cols.append(hi + (hi - lo) * 0.5 + 1)
                corr_decide(ctx, m, kind, np.array(cols).T)
            if kind in NBLOCKS and it % 3 == 0:
                corr_split(ctx, m, kind)
        if not inside_pts:
            continue
        # elements
        for rep in range(ctx.scale(2, 3)):
            if ctx.elapsed() > stop_at + 0.05 * ctx.budget:
                break
            try:
                if rep == 0:
                    # round robin over the whole pool of the cell type (skeleton elements live on
                    # facets: their "values" in cells are floating-point equality tests on the
                    # reference coordinates, not discrete functions to be probed)
                    pool = [q for q in elements.pool()[kind] if not elements.is_skeleton(q[0])]
                    ename, fac = pool[rr[kind] % len(pool)]
                    rr[kind] += 1
                    e = fac()
                else:
                    e, ename = elements.gen_element(rng, kind, exclude=("Skeleton",))
            except Exception:
                continue
            if elements.family(e) == "composite" and rng.random() < 0.7:
                continue
            r = probes_search(ctx, m, kind, info, geo, inside_pts, e, ename)
            if r is not None and have_driver and rep == 0:
                basis, x = r
                corr_probes(ctx, basis, x[:, :4], {"mesh": info, "element": ename})
    ctx.notes["meshes"] = it
    if ctx.tier == "thorough" and not getattr(ctx, "no_lean", False):
        ctx.leanchecker(["SkfemVerif.Props.C14"])
