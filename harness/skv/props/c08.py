"""C08  Quadrature rules deliver their advertised degree on every reference cell."""
import itertools
from fractions import Fraction
from math import factorial

import numpy as np

from ..core import exc_kind, unq
from ..gens import quad as genquad

TOL = Fraction(1, 2 ** 40)


def scaled(X, W):
    """exact integers: nodes * 2^S, weights * 2^SW"""
    S = genquad._scale_needed(list(np.asarray(X).flatten()) or [1.0])
    SW = genquad._scale_needed(list(np.asarray(W).flatten()))
    Xi = [[int(Fraction(float(v)) * (1 << S)) for v in row] for row in np.asarray(X)]
    Wi = [int(Fraction(float(w)) * (1 << SW)) for w in np.asarray(W)]
    return S, SW, Xi, Wi


def rule_json(X, W):
    S, SW, Xi, Wi = scaled(X, W)
    return {"S": S, "SW": SW, "pts": [{"c": [Xi[i][q] for i in range(len(Xi))], "w": Wi[q]} for q in range(len(Wi))]}


def exact_ref(kind, e):
    if kind in ("line", "tri", "tet"):
        num = 1
        for a in e:
            num *= factorial(a)
        return Fraction(num, factorial(sum(e) + len(e)))
    if kind in ("quad", "hex"):
        r = Fraction(1)
        for a in e:
            r /= (a + 1)
        return r
    if kind == "wedge":
        return Fraction(factorial(e[0]) * factorial(e[1]), factorial(e[0] + e[1] + 2)) / (e[2] + 1)
    if kind == "point":
        return Fraction(1)
    raise ValueError(kind)


def exponents(kind, n):
    d = {"point": 0, "line": 1, "tri": 2, "quad": 2, "tet": 3, "hex": 3, "wedge": 3}[kind]
    n = max(n, 0)
    if kind in ("line", "tri", "tet"):
        return [e for e in itertools.product(range(n + 1), repeat=d) if sum(e) <= n]
    if kind in ("quad", "hex"):
        return list(itertools.product(range(n + 1), repeat=d))
    if kind == "wedge":
        return [e for e in itertools.product(range(n + 1), repeat=3) if e[0] + e[1] <= n]
    return [()]


def apply_exact(S, SW, Xi, Wi, e):
    tot = 0
    for q in range(len(Wi)):
        t = Wi[q]
        for i, a in enumerate(e):
            if a:
                t *= Xi[i][q] ** a
        tot += t
    return Fraction(tot, 1 << (SW + S * sum(e)))


def inside(kind, X):
    X = np.asarray(X)
    if X.size == 0:
        return True
    if (X < 0).any():
        return False
    if kind in ("line", "quad", "hex"):
        return bool((X <= 1).all())
    if kind in ("tri", "tet"):
        return all(sum(Fraction(float(v)) for v in X[:, q]) <= 1 for q in range(X.shape[1]))
    if kind == "wedge":
        return all(Fraction(float(X[0, q])) + Fraction(float(X[1, q])) <= 1 for q in range(X.shape[1])) \
            and bool((X[2] <= 1).all())
    return True


MEASURE = {"point": Fraction(1), "line": Fraction(1), "tri": Fraction(1, 2), "quad": Fraction(1),
           "tet": Fraction(1, 6), "hex": Fraction(1), "wedge": Fraction(1, 2)}


def run(ctx):
    from skfem.quadrature import get_quadrature
    from skfem import refdom as R
    RD = {"point": R.RefPoint, "line": R.RefLine, "tri": R.RefTri, "quad": R.RefQuad, "tet": R.RefTet,
          "hex": R.RefHex, "wedge": R.RefWedge}
    ctx.rule = ("every (reference cell, order) pair: orders -3..45 for every cell (monomial checks up to a per-cell "
                "cap for the tensor cells in the quick tier) x every monomial up to the order, exact rational "
                "arithmetic on the doubles the library returns; distinct = (cell, order); non-trivial = rule "
                "returned (not an error)")
    ctx.trusted += ["Lean kernel (decide +kernel: GMP arithmetic); axioms propext/Classical.choice/Quot.sound",
                    "translator gens/quad.py (tables re-extracted from the live module on every run; every double "
                    "emitted as its exact dyadic value)",
                    "monomial integrals over reference cells: Dirichlet formula / 1/(a+1) (part of the statement; "
                    "cross-checked against an independent exact integrator below)",
                    "numpy.polynomial.legendre.leggauss beyond 20 points (orders > 39): search only"]
    ctx.assumptions += ["floating-point rounding of the weight products of tensor rules is not modelled "
                        "(compared with the exact product to 1e-15)"]
    changed = False
    try:
        changed = genquad.generate()
    except Exception as ex:
        ctx.broken.append({"kind": "translator", "what": "quadrature tables could not be extracted", "err": repr(ex)})
    ctx.notes["generated_files_changed"] = bool(changed)
    if not getattr(ctx, "no_lean", False):
        ctx.prove(["SkfemVerif.Props.C08"], ["SkfemVerif/Props/C08.lean"],
                  extra_theorem_files=["SkfemVerif/Gen/QuadFacts.lean"])
    # ---- independent cross-check of the reference integrals (tiny exact integrator on the triangle/tet)
    # ∫_0^1 ∫_0^{1-x} x^a y^b dy dx via binomial expansion
    def tri_int(a, b):
        # ∫ x^a (1-x)^(b+1)/(b+1) dx = B(a+1, b+2)/(b+1)
        tot = Fraction(0)
        for k in range(b + 2):
            from math import comb
            tot += Fraction((-1) ** k * comb(b + 1, k), a + k + 1)
        return tot / (b + 1)
    for a, b in itertools.product(range(5), repeat=2):
        if tri_int(a, b) != exact_ref("tri", (a, b)):
            raise RuntimeError("reference integral formula wrong")
    # ---- search: every rule the library hands out
    tables = None
    try:
        tables = genquad.collect()
    except Exception:
        pass
    caps = {"quad": ctx.scale(12, 45), "hex": ctx.scale(6, 14), "wedge": ctx.scale(7, 19), "tet": 45, "tri": 45,
            "line": 45, "point": 3}
    reqs, post = [], []
    orders = list(range(-3, 46))
    for kind in ("point", "line", "tri", "quad", "tet", "hex", "wedge"):
        for n in orders:
            if ctx.time_left(0.8) < 0:
                break
            try:
                X, W = get_quadrature(RD[kind], n)
                err = None
            except NotImplementedError as ex:
                err = "NotImplementedError"
            except Exception as ex:
                err = exc_kind(ex)
            ctx.case({"cell": kind, "order": n}, nontrivial=err is None,
                     sample={"cell": kind, "order": n, "nodes": None if err else int(len(W))}
                     if (kind, n) in (("tri", 5), ("hex", 3)) else None)
            ctx.count(kind + (":error" if err else ":rule"))
            inp = {"cell": kind, "order": n}
            if err is not None:
                if err != "NotImplementedError":
                    ctx.violation("get_quadrature raised an unexpected error kind", dict(inp, err=err),
                                  {"what": "error-kind", "cell": kind})
                # lookups: model must also say 'none'
                if kind in ("tri", "tet") and tables is not None:
                    reqs.append({"op": "quad.lookup", "kind": kind, "keys": sorted(tables[kind]), "n": n})
                    post.append(("lookup-none", inp, None))
                elif kind in ("line", "quad", "hex", "wedge"):
                    if not (kind == "wedge"):
                        ctx.violation("line-based rule raised", inp, {"what": "line-raise"})
                    elif tables is not None:
                        reqs.append({"op": "quad.lookup", "kind": "tri", "keys": sorted(tables["tri"]), "n": n})
                        post.append(("lookup-none", inp, None))
                continue
            X = np.asarray(X, dtype=float)
            W = np.asarray(W, dtype=float)
            if kind != "point" and X.shape[1] != len(W):
                ctx.violation("nodes and weights have different lengths", inp, {"what": "shape", "cell": kind})
                continue
            if not inside(kind, X):
                ctx.violation("a quadrature node lies outside the closed reference cell", inp,
                              {"what": "outside", "cell": kind})
            S, SW, Xi, Wi = scaled(X, W)
            wsum = Fraction(sum(Wi), 1 << SW)
            if abs(wsum - MEASURE[kind]) > TOL:
                ctx.violation("weights do not sum to the measure of the reference cell",
                              dict(inp, sum=float(wsum)), {"what": "weights", "cell": kind})
            if n <= caps[kind]:
                for e in exponents(kind, n):
                    val = apply_exact(S, SW, Xi, Wi, e)
                    if abs(val - exact_ref(kind, e)) > TOL:
                        ctx.violation("rule of advertised order does not integrate a monomial exactly",
                                      dict(inp, monomial=list(e), error=float(val - exact_ref(kind, e))),
                                      {"what": "inexact", "cell": kind, "order": n})
                        break
                ctx.count("monomial-checked:" + kind)
            # ---- correspondence with the model
            if tables is None:
                continue
            if kind in ("tri", "tet"):
                reqs.append({"op": "quad.lookup", "kind": kind, "keys": sorted(tables[kind]), "n": n})
                post.append(("lookup", inp, (X, W)))
            elif kind == "line":
                reqs.append({"op": "quad.lookup", "kind": "line", "keys": sorted(tables["line"]), "n": n})
                post.append(("lookup-line", inp, (X, W)))
            elif kind in ("quad", "hex", "wedge") and len(W) <= 4000:
                from skfem.quadrature import get_quadrature_line, get_quadrature_tri
                X1, W1 = get_quadrature_line(n)
                req = {"op": "quad.tensor", "kind": kind, "line": rule_json(X1, W1)}
                if kind == "wedge":
                    X2, W2 = get_quadrature_tri(n)
                    # common node scale
                    r1, r2 = rule_json(X1, W1), rule_json(X2, W2)
                    Sm = max(r1["S"], r2["S"])
                    for r in (r1, r2):
                        f = 1 << (Sm - r["S"])
                        for p in r["pts"]:
                            p["c"] = [c * f for c in p["c"]]
                        r["S"] = Sm
                    req["line"], req["tri"] = r1, r2
                reqs.append(req)
                post.append(("tensor", inp, (X, W)))
    if not ctx.driver.available():
        ctx.broken.append({"kind": "driver-missing"})
    elif reqs:
        outs = ctx.driver.run(reqs)
        for (tag, inp, impl), out in zip(post, outs):
            if isinstance(out, dict) and "error" in out:
                ctx.corr("quad." + tag, False, inp, out, None)
                continue
            if tag == "lookup-none":
                ctx.corr("quad.lookup(error)", out.get("none") is True, inp, out, "raises")
            elif tag == "lookup":
                kind = inp["cell"]
                if "key" not in out:
                    ctx.corr("quad.lookup", False, inp, out, "rule returned")
                    continue
                Xt, Wt = tables[kind][out["key"]]
                ok = Xt.shape == impl[0].shape and (Xt == impl[0]).all() and (Wt == impl[1]).all()
                ctx.corr("quad.lookup", ok, inp, {"key": out["key"]}, "different table entry returned")
            elif tag == "lookup-line":
                if "key" not in out:
                    # beyond the generated tables: only the number of points is compared
                    ctx.corr("quad.lookup(line,npoints)", out.get("line_points") == len(impl[1]), inp, out,
                             len(impl[1]))
                else:
                    Xt, Wt = tables["line"][out["key"]]
                    ok = Xt.shape == impl[0].shape and (Xt == impl[0]).all() and (Wt == impl[1]).all()
                    ctx.corr("quad.lookup(line)", ok, inp, {"key": out["key"]}, "different rule")
            elif tag == "tensor":
                nodes = unq(out["nodes"])
                weights = unq(out["weights"])
                X, W = impl
                ok = len(weights) == len(W)
                if ok:
                    for q in range(len(W)):
                        if [Fraction(float(v)) for v in X[:, q]] != nodes[q]:
                            ok = False
                            break
                        if abs(float(weights[q]) - W[q]) > 1e-15 * max(1.0, abs(W[q])) + 4e-16 * abs(W[q]):
                            ok = False
                            break
                ctx.corr("quad.tensor(" + inp["cell"] + ")", ok, inp, "model rule", "implementation rule")
    # ---- the arrays handed out belong to the caller: modifying them in place (a composite rule built by scaling
    # nodes and weights) must not change any rule requested later; and naming the cell by an element (class
    # instance, wrapper, mesh.elem) gives the rule of its reference cell
    import skfem
    from skfem.element import ElementVector, ElementDG
    ELEMS = {"line": [skfem.ElementLineP1(), skfem.ElementLineP2()],
             "tri": [skfem.ElementTriP1(), skfem.ElementTriP2(), ElementVector(skfem.ElementTriP1()),
                     ElementDG(skfem.ElementTriP1()), skfem.ElementTriRT1()],
             "quad": [skfem.ElementQuad1(), skfem.ElementQuad2()],
             "tet": [skfem.ElementTetP1(), ElementVector(skfem.ElementTetP1()), skfem.ElementTetN1()],
             "hex": [skfem.ElementHex1()], "wedge": [skfem.ElementWedge1()]}
    for kind in ("line", "tri", "quad", "tet", "hex", "wedge"):
        for n in (0, 1, 2, 3, 4, 5, 7):
            try:
                X0, W0 = get_quadrature(RD[kind], n)
            except NotImplementedError:
                continue
            Xc, Wc = np.array(X0, copy=True), np.array(W0, copy=True)
            for el in ELEMS[kind] + [type(ELEMS[kind][0])]:
                try:
                    Xe, We = get_quadrature(el, n)
                    ok = np.array_equal(Xe, Xc) and np.array_equal(We, Wc)
                except Exception as ex:
                    ok = False
                ctx.count("rule-requested-through-an-element")
                if not ok:
                    ctx.violation("the rule requested through an element differs from the rule of its reference cell",
                                  {"cell": kind, "order": n, "element": type(el).__name__ if not isinstance(el, type)
                                   else el.__name__ + " (class)"}, {"what": "element-argument", "cell": kind})
                    break
            try:
                X0 *= 0.5
                W0 *= 0.25
            except ValueError:
                pass        # read-only arrays would be fine too
            X1, W1 = get_quadrature(RD[kind], n)
            ctx.case({"cell": kind, "order": n, "kind": "caller-modifies-rule"}, nontrivial=True)
            ctx.count("rule-modified-in-place-then-requested-again")
            if not (np.array_equal(X1, Xc) and np.array_equal(W1, Wc)):
                ctx.violation("a rule changed after the caller modified an earlier copy of it in place",
                              {"cell": kind, "order": n, "weights_sum_now": float(np.sum(W1)),
                               "weights_sum_before": float(np.sum(Wc))}, {"what": "rule-aliased", "cell": kind})
            # rules built from the segment rule must be unaffected as well
            for other in ("line", "quad", "hex", "wedge"):
                try:
                    Xo, Wo = get_quadrature(RD[other], n)
                except NotImplementedError:
                    continue
                vol = {"line": 1.0, "quad": 1.0, "hex": 1.0, "wedge": 0.5}[other]
                if abs(float(np.sum(Wo)) - vol) > 1e-12:
                    ctx.violation("weights of a rule no longer sum to the measure of the cell after the caller "
                                  "modified another rule in place",
                                  {"modified": kind, "order": n, "cell": other, "weights_sum": float(np.sum(Wo))},
                                  {"what": "rule-aliased", "cell": other})
                    break
    ctx.exhaustive = True
    if ctx.tier == "thorough" and not getattr(ctx, "no_lean", False):
        ctx.leanchecker(["SkfemVerif.Props.C08"])
