"""C17  Saving and loading a mesh round-trips geometry, connectivity and tags.

Layers (GUIDE.md):
  proof          lean/SkfemVerif/Props/C17.lean about the model lean/SkfemVerif/Model/MeshIO.lean
  correspondence io.encode / io.decode / io.sub / io.subdec / io.hexmap / io.hexrows / io.postinit /
                 io.npz against Mesh._encode_cell_data / Mesh._decode_cell_data / skfem.io.meshio /
                 Mesh.__post_init__ / the key directory of real save_npz archives (exact)
  search         REAL round trips through files in a scratch directory (gmsh 4.1 / 2.2, vtk, vtu,
                 json, npz; in-memory meshio object and dict), comparing class, p, t, tag names,
                 tagged entity sets, orientation flags, user point/cell data, and checksums of the
                 exported mesh.
"""
import hashlib
import json
import os
import tempfile

import numpy as np

from .. import meshes
from ..core import exc_kind

KINDS = ["tri", "quad", "tet", "hex", "tri2", "quad2", "tet2", "hex2"]

# name -> (suffix, kwargs of Mesh.save); Mesh.save turns '.msh' without file_format into gmsh 4.1
MESHIO_FORMATS = {
    "gmsh41": (".msh", {}),
    "gmsh22": (".msh", {"file_format": "gmsh22"}),
    "vtk": (".vtk", {}),
    "vtk-ascii": (".vtk", {"binary": False}),
    "vtu": (".vtu", {}),
    "vtu-raw": (".vtu", {"compression": None}),
    "vtu-ascii": (".vtu", {"binary": False}),
}
OTHER_FORMATS = ["meshio-object", "json", "dict", "npz"]
ALL_FORMATS = list(MESHIO_FORMATS) + OTHER_FORMATS

# tag names: plain, with punctuation, non-ASCII, with the separator of the 'skfem:b:<name>' keys
# (no blanks: meshio's VTK writer refuses them with an explicit error)
NAME_POOL = ["left", "wall-2", "a.b", "x_1", "Γin", "in:1", "in:2", "if:a:b", "7"]


# ---------------------------------------------------------------------------------------------
# generators

def big_mesh(rng, kind):
    """a larger refined mesh (64 .. 384 cells), renumbered and with permuted cells"""
    base = kind.rstrip("2")
    cls = meshes.CLS[base]
    m = cls().refined({"tri": 3, "quad": 3, "tet": 2, "hex": 2}[base])
    p, t, _ = meshes.renumber(rng, m.p.copy(), m.t.astype(np.int64))
    t, _ = meshes.permute_cells(rng, t)
    m = cls(p, t.astype(np.int32))
    info = {"gen": "refined-large", "kind": kind, "renumbered": True, "cells-permuted": True,
            "nt": int(m.t.shape[1]), "nv": int(m.p.shape[1])}
    if kind.endswith("2"):
        info["curved"] = rng.random() < 0.5
        m = meshes.to_second_order(rng, m, base, info["curved"])
    return m, info


def make_tagged(rng, m):
    """returns (tagged mesh, spec); spec = {"boundaries": {name: [ix, ori or None]},
    "subdomains": {name: ix}} in the order/dtype handed to the library"""
    from skfem.generic_utils import OrientedBoundary
    style = rng.random()
    spec = {"boundaries": {}, "subdomains": {}}
    if style < 0.06:
        return m, spec                      # untagged mesh
    _, tags = meshes.random_tags(rng, m)
    nf, nt = m.nfacets, m.nelements
    bnd = set(int(f) for f in m.boundary_facets())
    interior = [f for f in range(nf) if f not in bnd]
    names = NAME_POOL[:]
    rng.shuffle(names)
    for name, (ix, ori) in tags["boundaries"].items():
        spec["boundaries"][name] = [list(ix), None if ori is None else list(ori)]
    for name, ix in tags["subdomains"].items():
        spec["subdomains"][name] = list(ix)
    # extra sets: unsorted order, interior interfaces with arbitrary flags, empty / full sets
    for _ in range(rng.randint(1, 2)):
        name = names.pop()
        r = rng.random()
        if r < 0.12:
            ix, ori = [], (None if rng.random() < 0.5 else [])
        elif r < 0.22:
            ix = list(range(nf))
            ori = None if rng.random() < 0.5 else [rng.randint(0, 1) if f not in bnd else 0 for f in ix]
        elif r < 0.7 and interior:
            k = rng.randint(1, min(len(interior), 8))
            ix = rng.sample(interior, k)
            ori = [rng.randint(0, 1) for _ in ix]
            if rng.random() < 0.2:
                ori = [1] * len(ix)
        else:
            k = rng.randint(1, min(nf, 8))
            ix = rng.sample(range(nf), k)
            ori = None if rng.random() < 0.5 else [rng.randint(0, 1) if f not in bnd else 0 for f in ix]
        spec["boundaries"][name] = [ix, ori]
    for _ in range(rng.randint(0, 1)):
        name = names.pop()
        r = rng.random()
        if r < 0.15:
            ix = []
        elif r < 0.3:
            ix = list(range(nt))
        else:
            ix = sorted(rng.sample(range(nt), rng.randint(1, nt)))
        spec["subdomains"][name] = ix
    if style > 0.94:
        spec["subdomains"] = {}
    elif style > 0.88:
        spec["boundaries"] = {}
    idt = rng.choice([np.int32, np.int64])
    bdict = {}
    for name, (ix, ori) in spec["boundaries"].items():
        a = np.array(ix, dtype=idt)
        bdict[name] = a if ori is None else OrientedBoundary(a, np.array(ori, dtype=idt))
    sdict = {name: np.array(ix, dtype=idt) for name, ix in spec["subdomains"].items()}
    mm = m
    if bdict:
        mm = mm.with_boundaries(bdict)
    if sdict:
        mm = mm.with_subdomains(sdict)
    return mm, spec


def make_user_data(rng, m):
    """user point / cell data (float scalars, float 3-vectors, integers)"""
    N, nt = m.p.shape[1], m.t.shape[1]

    def fl(n, k=None):
        if k is None:
            return np.array([rng.randint(-64, 64) / 16 for _ in range(n)], dtype=np.float64)
        return np.array([[rng.randint(-64, 64) / 16 for _ in range(k)] for _ in range(n)], dtype=np.float64)

    pd, cd = {}, {}
    if rng.random() < 0.85:
        pd["u"] = fl(N)
    if rng.random() < 0.5:
        pd["vec"] = fl(N, 3)
    if rng.random() < 0.5:
        pd["k"] = np.array([rng.randint(-9, 9) for _ in range(N)])
    if rng.random() < 0.7:
        cd["c"] = [fl(nt)]
    if rng.random() < 0.4:
        cd["ci"] = [np.array([rng.randint(-9, 9) for _ in range(nt)])]
    if rng.random() < 0.3:
        cd["cv"] = [fl(nt, 3)]
    return pd, cd


# ---------------------------------------------------------------------------------------------
# observation helpers

def _sha(a):
    a = np.ascontiguousarray(a)
    return hashlib.sha1(a.tobytes() + str(a.shape).encode() + str(a.dtype).encode()).hexdigest()


def checksums(m, pd, cd):
    h = {"doflocs": _sha(m.doflocs), "t": _sha(m.t), "cls": type(m).__name__,
         "facets": _sha(m.facets), "t2f": _sha(m.t2f), "f2t": _sha(m.f2t)}
    for kind, d in (("b", m.boundaries), ("s", m.subdomains)):
        h[kind + ":keys"] = None if d is None else list(d.keys())
        for k, v in (d or {}).items():
            h[f"{kind}:{k}"] = _sha(np.asarray(v)) + type(v).__name__
            if getattr(v, "ori", None) is not None:
                h[f"{kind}:{k}:ori"] = _sha(v.ori)
    for k, v in (pd or {}).items():
        h["pd:" + k] = _sha(v)
    for k, v in (cd or {}).items():
        h["cd:" + k] = _sha(v[0])
    return h


def observed_tags(m):
    """{'b:name': sorted [(facet, flag)], 's:name': sorted cells} of a mesh object"""
    out = {}
    for name, b in (m.boundaries or {}).items():
        ix = [int(v) for v in np.asarray(b)]
        o = getattr(b, "ori", None)
        o = [0] * len(ix) if o is None else [int(v) for v in o]
        if len(o) != len(ix):
            out["b:" + str(name)] = ("ori-length-mismatch", ix, o)
        else:
            out["b:" + str(name)] = sorted(zip(ix, o))
    for name, s in (m.subdomains or {}).items():
        out["s:" + str(name)] = sorted(int(v) for v in np.asarray(s))
    return out


def expected_tags(spec):
    out = {}
    for name, (ix, ori) in spec["boundaries"].items():
        out["b:" + name] = sorted(zip(ix, ori if ori is not None else [0] * len(ix)))
    for name, ix in spec["subdomains"].items():
        out["s:" + name] = sorted(ix)
    return out


def compare(m, m2, spec, fmt, pd, cd, out):
    """the property statement on one round trip; returns [(what, detail)]"""
    bad = []
    if type(m2) is not type(m):
        bad.append(("class-changed", {"saved": type(m).__name__, "loaded": type(m2).__name__}))
    p1, p2 = np.asarray(m.p), np.asarray(m2.p)
    # text formats print a bounded number of digits: coordinates that need more digits come back
    # rounded in the last places, which is not a change of the mesh in the sense of the property
    same = p1.shape == p2.shape and (np.array_equal(p1, p2) or (
        "ascii" in str(fmt) and np.allclose(p1, p2, rtol=1e-10, atol=1e-12)))
    if not same:
        bad.append(("points-changed", {"saved_shape": list(p1.shape), "loaded_shape": list(p2.shape)}))
    t1, t2 = np.asarray(m.t), np.asarray(m2.t)
    if t1.shape != t2.shape or not np.array_equal(t1, t2):
        bad.append(("connectivity-changed", {"saved": t1.tolist(), "loaded": t2.tolist()}))
    want, got = expected_tags(spec), observed_tags(m2)
    if set(want) != set(got):
        bad.append(("tag-names-changed", {"saved": sorted(map(str, want)), "loaded": sorted(map(str, got))}))
    for k in want:
        if k not in got or want[k] == got[k]:
            continue
        if k[0] == "s":
            bad.append(("subdomain-changed", {"name": k[2:], "saved": want[k], "loaded": got[k]}))
            continue
        g = got[k]
        if isinstance(g, tuple) or [f for f, _ in want[k]] != [f for f, _ in g]:
            bad.append(("boundary-facets-changed", {"name": k[2:], "saved": want[k], "loaded": g}))
        elif all(o == 0 for _, o in g):
            bad.append(("orientation-dropped", {"name": k[2:], "saved": want[k], "loaded": g}))
        else:
            bad.append(("orientation-wrong", {"name": k[2:], "saved": want[k], "loaded": g}))
    if out is not None:
        pd2, cd2 = out
        for k, v in pd.items():
            a = None if pd2 is None or k not in pd2 else np.asarray(pd2[k])
            if a is None or a.shape != v.shape or not np.array_equal(a, v):
                bad.append(("point-data-changed", {"name": k, "saved": v.tolist(),
                                                   "loaded": None if a is None else a.tolist()}))
        for k, v in cd.items():
            a = None
            if cd2 is not None and k in cd2 and len(cd2[k]) == 1:
                a = np.asarray(cd2[k][0])
            if a is None or a.shape != v[0].shape or not np.array_equal(a, v[0]):
                bad.append(("cell-data-changed", {"name": k, "saved": v[0].tolist(),
                                                  "loaded": None if a is None else a.tolist()}))
    return bad


def round_trip(m, fmt, tmpdir, pd, cd, variant):
    """save + load through one format; returns (loaded mesh, out) ; out = [point_data, cell_data]
    for the formats that carry user data"""
    from skfem import Mesh
    if fmt in MESHIO_FORMATS:
        suffix, kw = MESHIO_FORMATS[fmt]
        fn = os.path.join(tmpdir, "mesh" + suffix)
        skw = dict(kw)
        if variant.get("encode_point_data"):
            skw["encode_point_data"] = True
        m.save(fn, point_data=(dict(pd) if pd or variant.get("pd_dict") else None),
               cell_data=(dict(cd) if cd or variant.get("cd_dict") else None), **skw)
        out = ["point_data", "cell_data"]
        loader = type(m) if variant.get("load_via_class") else Mesh
        lkw = {}
        if variant.get("ignore_orientation"):
            lkw["ignore_orientation"] = True     # concerns gmsh physical groups only, not skfem tags
        m2 = loader.load(fn, out=out, **lkw)
        os.remove(fn)
        return m2, out
    if fmt == "meshio-object":
        from skfem.io.meshio import to_meshio, from_meshio
        mio = to_meshio(m, dict(pd) if pd else None, dict(cd) if cd else None)
        out = ["point_data", "cell_data"]
        m2 = from_meshio(mio, out=out)
        return m2, out
    if fmt == "json":
        import skfem.io.json as sjson
        fn = os.path.join(tmpdir, "mesh.json")
        sjson.to_file(m, fn)
        m2 = sjson.from_file(fn)
        os.remove(fn)
        return m2, None
    if fmt == "dict":
        d = json.loads(json.dumps(m.to_dict()))
        return type(m).from_dict(d), None
    if fmt == "npz":
        fn = os.path.join(tmpdir, "mesh.npz")
        m.save_npz(fn)
        m2 = type(m).load_npz(fn)
        os.remove(fn)
        return m2, None
    raise ValueError(fmt)


def build_mesh(cls_name, p, t):
    import skfem
    return getattr(skfem, cls_name)(np.array(p, dtype=np.float64), np.array(t, dtype=np.int32))


def attach(m, spec, idt=np.int32):
    from skfem.generic_utils import OrientedBoundary
    bdict = {}
    for name, (ix, ori) in spec["boundaries"].items():
        a = np.array(ix, dtype=idt)
        bdict[name] = a if ori is None else OrientedBoundary(a, np.array(ori, dtype=idt))
    sdict = {name: np.array(ix, dtype=idt) for name, ix in spec["subdomains"].items()}
    if bdict:
        m = m.with_boundaries(bdict)
    if sdict:
        m = m.with_subdomains(sdict)
    return m


def reused_dict_case(ctx, m0, tmpdir, info):
    """ONE user cell_data dictionary passed to two consecutive exports of differently tagged versions of a mesh
    (as when loaded data is passed on, or a dictionary of user fields is kept): the second file carries the
    tags of the SECOND mesh"""
    from skfem.io.meshio import to_meshio, from_meshio
    rng = ctx.rng
    ma, spec_a = make_tagged(rng, m0)
    mb, spec_b = make_tagged(rng, m0)
    # same names, other sets: take b's sets under a's names where possible
    pd, cd = make_user_data(rng, ma)
    shared = {k: [np.array(v[0], copy=True)] for k, v in cd.items()} or {"user": [np.arange(m0.t.shape[1], dtype=float)]}
    fmt = rng.choice(["meshio-object", "vtk-ascii", "gmsh22"] if "vtk-ascii" in MESHIO_FORMATS else
                     ["meshio-object"] + list(MESHIO_FORMATS)[:2])
    cls = type(m0).__name__
    replay = {"cls": cls, "p": m0.doflocs.tolist(), "t": m0.t.tolist(), "tags_first": spec_a, "tags": spec_b,
              "format": fmt, "info": info, "sequence": "save(first, cell_data=d); save(second, cell_data=d) with ONE dict d"}
    ctx.count("reused-user-dict:" + fmt)
    ctx.case({"cls": cls, "t": m0.t.tolist(), "reused-dict": fmt, "tags": spec_b}, nontrivial=True)
    try:
        results = []
        for mm in (ma, mb):
            if fmt == "meshio-object":
                out = ["point_data", "cell_data"]
                results.append((from_meshio(to_meshio(mm, None, shared), out=out), out))
            else:
                suffix, kw = MESHIO_FORMATS[fmt]
                fn = os.path.join(tmpdir, "reuse" + suffix)
                mm.save(fn, cell_data=shared, **kw)
                out = ["point_data", "cell_data"]
                from skfem import Mesh
                results.append((Mesh.load(fn, out=out), out))
                os.remove(fn)
        m2, out = results[1]
        bad = compare(mb, m2, spec_b, fmt, {}, {k: v for k, v in cd.items() if k in shared}, out)
    except Exception as e:
        ctx.violation(f"second export with a reused cell_data dictionary raised {type(e).__name__}: {e}"[:300],
                      dict(replay, error=repr(e)), {"what": "raise:" + exc_kind(e), "format": fmt, "cls": cls})
        return
    for what, detail in bad:
        ctx.violation(f"{what} in the SECOND of two exports that were given the same cell_data dictionary ({fmt}, {cls})",
                      dict(replay, detail=detail), {"what": what, "format": fmt, "cls": cls, "reused_dict": True})


def one_case(ctx, m, spec, fmt, tmpdir, pd, cd, variant, info):
    """one round trip + all clauses of the statement; reports violations; returns #problems"""
    cls = type(m).__name__
    replay = {"cls": cls, "p": m.doflocs.tolist(), "t": m.t.tolist(), "tags": spec, "format": fmt,
              "variant": variant, "point_data": {k: v.tolist() for k, v in pd.items()},
              "cell_data": {k: v[0].tolist() for k, v in cd.items()}, "info": info}
    before = checksums(m, pd, cd)
    try:
        m2, out = round_trip(m, fmt, tmpdir, pd, cd, variant)
    except Exception as e:
        ctx.violation(f"round trip through {fmt} raised {type(e).__name__}: {e}"[:300],
                      dict(replay, error=repr(e)), {"what": "raise:" + exc_kind(e), "format": fmt, "cls": cls})
        return 1
    after = checksums(m, pd, cd)
    n = 0
    if before != after:
        diff = sorted(k for k in set(before) | set(after) if before.get(k) != after.get(k))
        ctx.violation("exporting altered the mesh object / the caller's arrays: " + ", ".join(diff),
                      dict(replay, altered=diff), {"what": "export-altered-mesh", "format": fmt, "cls": cls})
        n += 1
    try:
        bad = compare(m, m2, spec, fmt, pd, cd, out)
    except Exception as e:
        bad = [("loaded-mesh-unreadable:" + exc_kind(e), repr(e))]
    for what, detail in bad:
        ctx.violation(f"{what} after a round trip through {fmt} ({cls})", dict(replay, detail=detail),
                      {"what": what, "format": fmt, "cls": cls})
        n += 1
    return n


# ---------------------------------------------------------------------------------------------
# correspondence

def tables(m):
    return {"t2f": m.t2f.tolist(), "nt": int(m.t.shape[1]), "f2t0": m.f2t[0].tolist(), "f2t1": m.f2t[1].tolist()}


def corr_requests(ctx, m, spec, info):
    """(tag, request, impl-value) triples for one tagged mesh"""
    from skfem.generic_utils import OrientedBoundary
    rng = ctx.rng
    reqs = []
    tb = tables(m)
    nslots = m.t2f.shape[0]
    nt = tb["nt"]
    try:
        enc = m._encode_cell_data()
    except Exception as e:
        ctx.violation("_encode_cell_data raised " + exc_kind(e), {"mesh": meshes.mesh_descr(m), "tags": spec,
                                                                   "error": repr(e)},
                      {"what": "raise:" + exc_kind(e), "format": "encode", "cls": type(m).__name__})
        return reqs
    datas = []
    for name, (ix, ori) in spec["boundaries"].items():
        data = [int(v) for v in enc["skfem:b:" + name][0]]
        reqs.append(("io.encode", dict(tb, op="io.encode", fs=ix, ori=ori if ori is not None else [0] * len(ix)),
                     data))
        datas.append(data)
    # illegal flags (flag 1 on a boundary facet: NumPy's -1 wraps to the last cell) and raw data
    bf = [int(f) for f in m.boundary_facets()]
    if bf and rng.random() < 0.5:
        ix = rng.sample(range(m.nfacets), rng.randint(1, min(m.nfacets, 5)))
        ori = [rng.randint(0, 1) for _ in ix]
        try:
            mm = m.with_boundaries({"zz": OrientedBoundary(np.array(ix), np.array(ori))})
            data = [int(v) for v in mm._encode_cell_data()["skfem:b:zz"][0]]
            reqs.append(("io.encode(any flags)", dict(tb, op="io.encode", fs=ix, ori=ori), data))
        except Exception:
            pass
    if rng.random() < 0.7:
        datas.append([rng.randrange(1 << nslots) if rng.random() < 0.5 else 0 for _ in range(nt)])
    for data in datas:
        try:
            b, _ = m._decode_cell_data({"skfem:b:q": [np.array(data)]})
            b = b["q"]
            o = getattr(b, "ori", None)
            impl = {"facets": [int(v) for v in b], "ori": None if o is None else [int(v) for v in o]}
        except Exception as e:
            impl = {"raises": exc_kind(e)}
        reqs.append(("io.decode", {"op": "io.decode", "t2f": tb["t2f"], "f2t0": tb["f2t0"], "f2t1": tb["f2t1"],
                                   "data": data}, impl))
    for name, ix in spec["subdomains"].items():
        data = [int(v) for v in enc["skfem:s:" + name][0]]
        _, s = m._decode_cell_data({"skfem:s:q": [np.array(data)]})
        reqs.append(("io.sub", {"op": "io.sub", "nt": nt, "s": ix}, {"enc": data, "dec": [int(v) for v in s["q"]]}))
    if rng.random() < 0.5:
        data = [rng.choice([0, 0, 1, 1, 2, 5]) for _ in range(nt)]
        _, s = m._decode_cell_data({"skfem:s:q": [np.array(data)]})
        reqs.append(("io.subdec", {"op": "io.subdec", "data": data}, [int(v) for v in s["q"]]))
    return reqs


def corr_compare(ctx, tag, req, impl, out):
    if isinstance(out, dict) and "error" in out:
        ctx.corr(tag, False, req, out, impl)
        return
    if tag.startswith("io.encode"):
        ctx.corr(tag, out == impl, req, out, impl)
    elif tag == "io.decode":
        if "raises" in impl:
            ctx.corr(tag, False, req, out, impl)
            return
        # the property fixes the decoded (facet, flag) pairs, not the order of the returned array nor
        # whether all-zero flags come back as an OrientedBoundary: compare the pairs as multisets
        def pairs(f, o):
            return sorted(zip(f, o if o is not None else [0] * len(f)))
        model_ori = out["ori"] if out["oriented"] else None
        agree = (len(impl["facets"]) == len(out["facets"])
                 and (impl["ori"] is None or len(impl["ori"]) == len(impl["facets"]))
                 and pairs(impl["facets"], impl["ori"]) == pairs(out["facets"], out["ori"]))
        old_ori = out["old_ori"] if out["old_oriented"] else None
        note = None
        if not agree and out["old_facets"] == impl["facets"] and old_ori == impl["ori"]:
            note = "implementation agrees with the model of the PINNED decoder (defect F4)"
        ctx.corr(tag, agree, req, {"facets": out["facets"], "ori": model_ori, "note": note}, impl)
    elif tag == "io.npz":
        agree = (sorted(out["keys"]) == sorted(impl["keys"])
                 and sorted(map(tuple, out["bnd"])) == sorted(map(tuple, impl["bnd"]))
                 and sorted(out["sub"]) == sorted(impl["sub"]))
        ctx.corr(tag, agree, req, out, impl)
    elif tag == "io.sub":
        ctx.corr(tag, out["enc"] == impl["enc"] and sorted(out["dec"]) == sorted(impl["dec"]), req, out, impl)
    elif tag == "io.subdec":
        ctx.corr(tag, sorted(out) == sorted(impl), req, out, impl)
    else:
        ctx.corr(tag, out == impl, req, out, impl)


def npz_request(m, tmpdir):
    """key directory of a real archive written by save_npz and the tag directory load_npz reads"""
    from skfem.generic_utils import OrientedBoundary
    fn = os.path.join(tmpdir, "keys.npz")
    m.save_npz(fn)
    with np.load(fn) as data:
        keys = list(data.files)
    m2 = type(m).load_npz(fn)
    os.remove(fn)
    bnd = [[k, isinstance(v, OrientedBoundary)] for k, v in (m.boundaries or {}).items()]
    if any(o for _, o in bnd) and not any(k.startswith("o_") for k in keys):
        # an archive without orientation keys (the pinned key scheme, finding F13): tie the rest of the
        # scheme; the dropped flags are reported by the search as 'orientation-dropped'
        bnd = [[k, False] for k, _ in bnd]
    sub = list((m.subdomains or {}).keys())
    impl = {"keys": keys,
            "bnd": [[k, isinstance(v, OrientedBoundary)] for k, v in (m2.boundaries or {}).items()],
            "sub": list((m2.subdomains or {}).keys())}
    return ("io.npz", {"op": "io.npz", "bnd": bnd, "sub": sub}, impl)


def hex_requests(ctx, m):
    """HEX_MAPPING on export and its inverse on import (tables and their application)"""
    from skfem.io import meshio as smio
    import meshio
    reqs = []
    cls = type(m).__name__
    if cls not in ("MeshHex1", "MeshHex2"):
        return reqs
    n = 8 if cls == "MeshHex1" else 27
    mtype = "hexahedron" if n == 8 else "hexahedron27"
    edofs = m.dofs.element_dofs
    mio = smio.to_meshio(m)
    reqs.append(("io.hexrows(export)", {"op": "io.hexrows", "t": edofs.tolist(), "n": n, "inverse": False},
                 mio.cells_dict[mtype].T.tolist()))
    m2 = smio.from_meshio(meshio.Mesh(m.p.T, {mtype: mio.cells_dict[mtype]}))
    # for the 27-node class __post_init__ keeps the vertex rows (nodes are in Dofs order)
    reqs.append(("io.hexrows(import)", {"op": "io.hexrows", "t": mio.cells_dict[mtype].T.tolist(), "n": n,
                                        "inverse": True}, ("first8", m2.t.tolist())))
    return reqs


def postinit_case(ctx, m, info):
    """a high-order mesh handed to the constructor in an EXTERNAL node order (random relabelling
    of all nodes, extra nodes as extra rows of t): model correspondence + geometric oracle"""
    rng = ctx.rng
    cls = type(m)
    M = m.t.shape[0]
    tfull = m.dofs.element_dofs.astype(np.int64)
    N = m.doflocs.shape[1]
    if int(tfull.max()) + 1 != N:
        return None
    sigma = list(range(N))
    mode = rng.choice(["identity", "shuffle", "shuffle", "extras-first"])
    if mode == "shuffle":
        rng.shuffle(sigma)
    elif mode == "extras-first":
        nv = int(m.t.max()) + 1
        sigma = [(j + (N - nv)) if j < nv else (j - nv) for j in range(N)]
    sigma = np.array(sigma)
    p_ext = np.zeros_like(m.doflocs)
    p_ext[:, sigma] = m.doflocs
    t_ext = sigma[tfull]
    desc = {"cls": cls.__name__, "p": p_ext.tolist(), "t": t_ext.tolist(), "mode": mode}
    try:
        m2 = cls(p_ext.copy(), t_ext.astype(np.int32))
        ed2 = m2.dofs.element_dofs
    except Exception as e:
        ctx.violation("constructing a high-order mesh from external node order raised " + exc_kind(e),
                      dict(desc, error=repr(e)), {"what": "raise:" + exc_kind(e), "format": "post_init",
                                                  "cls": cls.__name__})
        return None
    ctx.count("postinit:" + mode)
    # geometric oracle: every local node of every cell sits where the input put it
    ok = (m2.t.shape == m.t.shape and ed2.shape == tfull.shape
          and np.array_equal(m2.doflocs[:, ed2], p_ext[:, t_ext]))
    if not ok:
        ctx.violation("__post_init__ re-ordering of a high-order mesh moved nodes", desc,
                      {"what": "high-order-reorder", "format": "post_init", "cls": cls.__name__})
    if mode == "identity" and not (np.array_equal(m2.t, m.t) and np.array_equal(m2.doflocs, m.doflocs)):
        ctx.violation("__post_init__ is not the identity on a mesh already in Dofs order", desc,
                      {"what": "high-order-reorder-identity", "format": "post_init", "cls": cls.__name__})
    perm_impl = None
    req = {"op": "io.postinit", "M": int(M), "nt": int(m.t.shape[1]), "N": int(N), "t": t_ext.tolist(),
           "edofs": ed2.tolist()}
    return ("io.postinit", req, {"t": m2.t.tolist(), "doflocs": m2.doflocs, "p_ext": p_ext})


def postinit_compare(ctx, req, impl, out):
    if isinstance(out, dict) and "error" in out:
        ctx.corr("io.postinit", False, req, out, None)
        return
    N = req["N"]
    p_ext, dl = impl["p_ext"], impl["doflocs"]
    agree = out["t"] == impl["t"] and len(out["perm"]) == dl.shape[1]
    if agree:
        cols = np.hstack((p_ext, np.zeros((p_ext.shape[0], 1))))     # label N = zero column
        agree = np.array_equal(cols[:, np.array(out["perm"], dtype=np.int64)], dl)
    ctx.corr("io.postinit", bool(agree), req, out, {"t": impl["t"], "doflocs": dl.tolist()})


# ---------------------------------------------------------------------------------------------

def fixed_cases():
    """witnesses of the defects found on the pinned tree (first in every run)"""
    p = [[0., 1., 0., 1.], [0., 0., 1., 1.]]
    t = [[0, 1], [1, 2], [2, 3]]
    return [
        # F4: unoriented set {1,2}: pinned decoder returned a spurious flag on the interior facet 2
        ("MeshTri1", p, t, {"boundaries": {"b": [[1, 2], None]}, "subdomains": {}}),
        # F4: oriented interior facet comes back with its flag lost
        ("MeshTri1", p, t, {"boundaries": {"b": [[1, 2, 4], [0, 1, 0]]}, "subdomains": {"s": [1]}}),
        # F13: flags through npz / dict
        ("MeshTri1", p, t, {"boundaries": {"if": [[2], [1]]}, "subdomains": {}}),
        # tag names containing the key separator
        ("MeshTri1", p, t, {"boundaries": {"in:1": [[0], None], "in:2": [[3], None]},
                            "subdomains": {"mat:a": [0], "mat:b": [1]}}),
    ]


def run(ctx):
    ctx.rule = ("a case is one (mesh, tag set, user data, format) round trip through a real file in a scratch "
                "directory; meshes: the eight classes named by the property (random Delaunay/tensor/refined, holes, "
                "renumbered, cells permuted, locally re-ordered, curved second order); tag sets: random boundary / "
                "interior facet subsets, unsorted, oriented with arbitrary legal flags, empty and full sets, names "
                "with punctuation / non-ASCII / ':'; distinct = distinct (class, p, t, tags, format); non-trivial = "
                "at least one non-empty tag")
    ctx.trusted += ["Lean kernel; axioms propext/Classical.choice/Quot.sound",
                    "model Skv.MeshIO hand-written, tied by exact correspondence ops io.*",
                    "meshio's writers/readers and numpy.savez/json are exercised by the search but not modelled",
                    "Dofs.element_dofs (verified in C04) enters io.postinit as data"]
    ctx.assumptions += ["tagged facet sets are duplicate-free index sets; flag 1 only on interior facets "
                        "(OrientedBoundary contract)",
                        "C11 table specification (TableSpec) for t2f/f2t; linked to build_inverse by "
                        "C17_tables_of_buildInverse",
                        "every vertex of a mesh belongs to a cell (an unused point is dropped by __post_init__ of "
                        "the second-order classes)",
                        "dict/JSON form only for first-order meshes (statement); gmsh ASCII variants excluded: meshio "
                        "5.3 cannot read its own ASCII .msh under NumPy 2.x (np.fromfile), independent of skfem"]
    if not getattr(ctx, "no_lean", False):
        ctx.prove(["SkfemVerif.Props.C17"], ["SkfemVerif/Props/C17.lean"])

    pending = []        # (tag, req, impl)
    pending_post = []
    n_meshes = ctx.scale(200, 2400)
    with tempfile.TemporaryDirectory(prefix="skv_c17_") as tmpdir:
        # witnesses first
        for cls, p, t, spec in fixed_cases():
            m0 = build_mesh(cls, p, t)
            m = attach(m0, spec)
            for fmt in ALL_FORMATS:
                ctx.case({"cls": cls, "p": p, "t": t, "tags": spec, "fmt": fmt})
                ctx.count("format:" + fmt)
                one_case(ctx, m, spec, fmt, tmpdir, {}, {}, {}, {"witness": True})
            pending += corr_requests(ctx, m, spec, {"witness": True})
            pending.append(npz_request(m, tmpdir))
        for it in range(n_meshes):
            if ctx.time_left(0.75) < 0:
                break
            if it % 10 == 9:
                m0, info = big_mesh(ctx.rng, ctx.rng.choice(KINDS))
                ctx.count("large-mesh")
            else:
                m0, info = meshes.gen_mesh(ctx.rng, KINDS)
            kind = info["kind"]
            try:
                m, spec = make_tagged(ctx.rng, m0)
            except Exception as e:
                ctx.violation("attaching tags raised " + exc_kind(e), {"mesh": meshes.mesh_descr(m0), "error": repr(e)},
                              {"what": "raise:" + exc_kind(e), "format": "tagging", "cls": type(m0).__name__})
                continue
            pd, cd = make_user_data(ctx.rng, m)
            ctx.count("mesh:" + kind)
            for k in ("holes", "renumbered", "cells-permuted", "local-reorder", "curved"):
                if info.get(k):
                    ctx.count(k)
            nb_or = sum(1 for _, (ix, ori) in spec["boundaries"].items() if ori is not None and any(ori))
            ctx.count("boundaries", len(spec["boundaries"]))
            ctx.count("boundaries-with-nonzero-flags", nb_or)
            ctx.count("subdomains", len(spec["subdomains"]))
            if any(":" in k for k in list(spec["boundaries"]) + list(spec["subdomains"])):
                ctx.count("names-with-colon")
            if not spec["boundaries"] and not spec["subdomains"]:
                ctx.count("untagged")
            nontrivial = any(len(v[0]) for v in spec["boundaries"].values()) or \
                any(len(v) for v in spec["subdomains"].values())
            for fmt in ALL_FORMATS:
                if fmt in ("json", "dict") and kind.endswith("2"):
                    continue        # the statement names the dict/JSON form for first-order meshes
                variant = {}
                if fmt in MESHIO_FORMATS:
                    r = ctx.rng.random()
                    if r < 0.15:
                        variant["encode_point_data"] = True
                    elif r < 0.3:
                        variant["load_via_class"] = True
                    elif r < 0.4:
                        variant["ignore_orientation"] = True
                    for v in variant:
                        ctx.count("variant:" + v)
                ctx.case({"cls": kind, "p": m.doflocs.tolist(), "t": m.t.tolist(), "tags": spec, "fmt": fmt},
                         nontrivial=nontrivial,
                         sample={"info": info, "tags": spec, "format": fmt, "variant": variant,
                                 "point_data": sorted(pd), "cell_data": sorted(cd)} if it < 2 and fmt == "gmsh41"
                         else None)
                ctx.count("format:" + fmt)
                one_case(ctx, m, spec, fmt, tmpdir, pd, cd, variant, info)
            if it % 4 == 1:
                try:
                    reused_dict_case(ctx, m0, tmpdir, info)
                except Exception as e:
                    ctx.violation("reused-dictionary case raised " + exc_kind(e), {"mesh": meshes.mesh_descr(m0),
                                                                                   "error": repr(e)},
                                  {"what": "raise:" + exc_kind(e), "format": "reused-dict", "cls": type(m0).__name__})
            # model correspondence on the same tables
            try:
                pending += corr_requests(ctx, m, spec, info)
                pending += hex_requests(ctx, m)
                pending.append(npz_request(m, tmpdir))
                if kind.endswith("2"):
                    pc = postinit_case(ctx, m0, info)
                    if pc is not None:
                        pending_post.append(pc)
            except Exception as e:
                ctx.violation("encode/decode of tags raised " + exc_kind(e),
                              {"mesh": meshes.mesh_descr(m), "tags": spec, "error": repr(e)},
                              {"what": "raise:" + exc_kind(e), "format": "encode", "cls": type(m).__name__})
        leftovers = os.listdir(tmpdir)
        ctx.notes["scratch_leftovers"] = leftovers
    # tables lifted from the live module
    from skfem.io import meshio as smio
    pending.append(("io.hexmap", {"op": "io.hexmap"}, {"hex": list(smio.HEX_MAPPING), "inv": list(smio.INV_HEX_MAPPING)}))

    if ctx.driver.available():
        outs = ctx.driver.run([r for (_, r, _) in pending] + [r for (_, r, _) in pending_post])
        for (tag, req, impl), out in zip(pending, outs[:len(pending)]):
            if tag == "io.hexrows(import)":
                n = 8
                ctx.corr(tag, isinstance(out, list) and out[:n] == impl[1], req, out, impl[1])
            else:
                corr_compare(ctx, tag, req, impl, out)
        for (tag, req, impl), out in zip(pending_post, outs[len(pending):]):
            postinit_compare(ctx, req, impl, out)
    else:
        ctx.broken.append({"kind": "driver-missing"})
    if ctx.tier == "thorough" and not getattr(ctx, "no_lean", False):
        ctx.leanchecker(["SkfemVerif.Props.C17"])


def replay(ctx, rp):
    """re-run the recorded failing round trip"""
    inp = rp.get("input", {})
    if "format" not in inp or inp["format"] not in ALL_FORMATS:
        run(ctx)
        return
    m = attach(build_mesh(inp["cls"], inp["p"], inp["t"]), inp["tags"])
    pd = {k: np.array(v) for k, v in inp.get("point_data", {}).items()}
    cd = {k: [np.array(v)] for k, v in inp.get("cell_data", {}).items()}
    with tempfile.TemporaryDirectory(prefix="skv_c17_") as tmpdir:
        ctx.case({"replay": inp})
        one_case(ctx, m, inp["tags"], inp["format"], tmpdir, pd, cd, inp.get("variant", {}), inp.get("info", {}))
