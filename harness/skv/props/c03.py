"""C03  Discrete functions are globally continuous in the sense of the element."""
import numpy as np

from .. import meshes, elements
from ..core import exc_kind, exc_trace

# element name -> category of the continuity claim
NONCONF_MIDPOINT = {"ElementTriCR", "ElementTetCR"}          # continuous at facet centroids (facet means)
C1 = {"ElementTriArgyris", "ElementQuadBFS", "ElementHexC1", "ElementLineHermite"}
MORLEY = {"ElementTriMorley"}
STRUCTURED_ONLY = {"ElementQuadBFS", "ElementHexC1", "ElementQuad2G"}   # families the globally defined
#                                                                         quad/hex elements support
NOCLAIM_GLOBAL = {"ElementTri15ParamPlate"}                  # nonconforming plate element: vertex values only


def category(e, name):
    base = name.split("(")[0]
    fam = elements.family(e)
    if "Skeleton" in name or fam in ("dg", "matrix", "composite"):
        return None
    if base in NONCONF_MIDPOINT:
        return "midpoint"
    if base in MORLEY:
        return "morley"
    if base in NOCLAIM_GLOBAL:
        return "vertex-values"
    if base in C1:
        return "c1"
    if fam == "global":
        return "h1"
    if fam == "hdiv":
        return "hdiv"
    if fam == "hcurl":
        return "hcurl"
    if fam == "vector":
        return category(e.elem, type(e.elem).__name__)
    if fam == "h1":
        if int(e.nodal_dofs) == 0:
            return None          # cell-wise (P0, DG-like) functions: no continuity claimed
        return "h1"
    return None


def facet_quadrature(m, cat):
    """reference facet points at which the two one-sided traces are compared"""
    fdim = m.dim() - 1
    if fdim == 0:
        return np.zeros((0, 1)), np.ones(1)
    if cat == "midpoint":
        if fdim == 1:
            return np.array([[0.5]]), np.array([1.0])
        return np.array([[1 / 3], [1 / 3]]), np.array([0.5])
    if cat in ("morley",):
        return np.array([[0.0, 0.5, 1.0]]), np.array([1 / 6, 4 / 6, 1 / 6])
    if cat == "vertex-values":
        return np.array([[0.0, 1.0]]), np.array([0.5, 0.5])
    if fdim == 1:
        return np.array([[0.0, 0.1, 0.35, 0.5, 0.8, 1.0]]), np.ones(6) / 6
    rd = m.elem.refdom.brefdom
    if rd.__name__ == "RefTri":
        pts = np.array([[0.0, 1.0, 0.0, 0.25, 0.5, 0.2, 0.6], [0.0, 0.0, 1.0, 0.25, 0.5, 0.7, 0.1]])
    else:
        pts = np.array([[0.0, 1.0, 1.0, 0.0, 0.5, 0.3, 0.9], [0.0, 0.0, 1.0, 1.0, 0.5, 0.8, 0.2]])
    return pts, np.ones(pts.shape[1]) / pts.shape[1]


def jumps(m, e, cat, x, comp=0):
    """max |jump| of the element-appropriate trace over all interior facets and comparison points;
    returns (jump, scale, detail); comp = component of a composite element"""
    from skfem import InteriorFacetBasis
    q = facet_quadrature(m, cat)
    b0 = InteriorFacetBasis(m, e, side=0, quadrature=q)
    b1 = InteriorFacetBasis(m, e, side=1, quadrature=q)
    u0 = b0.interpolate(x)
    u1 = b1.interpolate(x)
    if isinstance(u0, tuple):
        u0, u1 = u0[comp], u1[comp]
    n = np.asarray(b0.normals)
    v0, v1 = np.asarray(u0), np.asarray(u1)
    dim = m.dim()
    res = []

    def add(a, b, what):
        a, b = np.asarray(a), np.asarray(b)
        sc = max(1.0, float(np.abs(a).max()) if a.size else 1.0)
        res.append((float(np.abs(a - b).max()) if a.size else 0.0, sc, what))
    if cat in ("h1", "c1"):
        add(v0, v1, "value")
        if cat == "c1" and u0.grad is not None:
            add(u0.grad, u1.grad, "gradient")
    elif cat == "midpoint":
        add(v0, v1, "value at the facet centroid")
    elif cat == "vertex-values":
        add(v0, v1, "value at the facet end points")
    elif cat == "morley":
        add(v0[..., [0, 2]], v1[..., [0, 2]], "value at the facet end points")
        g0 = (np.asarray(u0.grad) * n).sum(axis=0)
        g1 = (np.asarray(u1.grad) * n).sum(axis=0)
        add(g0[..., 1], g1[..., 1], "normal derivative at the facet midpoint")
    elif cat == "hdiv":
        add((v0 * n).sum(axis=0), (v1 * n).sum(axis=0), "normal component")
    elif cat == "hcurl":
        if dim == 2:
            t = np.array([-n[1], n[0]])
            add((v0 * t).sum(axis=0), (v1 * t).sum(axis=0), "tangential component")
        else:
            add(np.cross(n, v0, axis=0), np.cross(n, v1, axis=0), "tangential component")
    return res


def cell_aspect(m):
    """largest (longest edge)^d / (d! * volume) over the cells of a simplicial mesh (1 for other meshes): how far
    the cells are from well shaped"""
    try:
        d = m.p.shape[0]
        if m.t.shape[0] != d + 1 or d < 2:
            return 1.0
        P = m.p[:, m.t]                                   # (d, d+1, nt)
        E = P[:, 1:, :] - P[:, :1, :]
        vol = np.abs(np.linalg.det(np.moveaxis(E, 2, 0)))  # d! * volume
        longest = 0.0
        for i in range(d + 1):
            for j in range(i + 1, d + 1):
                longest = np.maximum(longest, np.linalg.norm(P[:, i, :] - P[:, j, :], axis=0))
        return float(np.max(longest ** d / np.maximum(vol, 1e-300)))
    except Exception:
        return 1.0


def run(ctx):
    from skfem import Basis
    ctx.rule = ("random meshes of every class (Delaunay / tensor / refined / jiggled, vertex renumbering, cell "
                "permutation, admissible local re-ordering: any order for simplices, cyclic shifts for quadrilaterals, "
                "the 24 rotations for hexahedra; curved second-order meshes) x every exported element with a "
                "continuity claim (and ElementVector wrappers) x random coefficient vectors: the two one-sided traces "
                "(InteriorFacetBasis side 0 / 1 at common points incl. facet end points) of value / normal / "
                "tangential component / gradient / defining functionals; distinct = (mesh, element); non-trivial = "
                "mesh has an interior facet")
    ctx.trusted += ["Lean kernel; axioms propext/Classical.choice/Quot.sound",
                    "C04 (DOF sharing), C11 (facet tables), C09 moment facts (uniform flux/circulation per element) "
                    "are reused", "InteriorFacetBasis evaluates both neighbours at the same physical points (C10)"]
    ctx.assumptions += ["triangle meshes built with sort_t=False are outside the claim for multi-DOF facets",
                        "globally defined quadrilateral/hexahedral C1 elements are claimed on structured meshes only",
                        "continuity at ALL points is inferred from the comparison points being unisolvent for the "
                        "trace polynomials of the element (search), and proved only through the sign/sharing logic"]
    # the moment / trace tables the theorems quote are regenerated from the live lbasis of every element
    try:
        from ..gens import shapes as genshapes
        ctx.notes["generated_files_changed"] = bool(genshapes.generate())
        rep = genshapes.generate.report
        ctx.notes["traced_elements"] = len(rep.get("traced", []))
    except Exception as ex:
        ctx.broken.append({"kind": "translator", "what": "shape functions could not be traced", "err": repr(ex)})
    if not getattr(ctx, "no_lean", False):
        ctx.prove(["SkfemVerif.Props.C03", "SkfemVerif.Props.C03b"],
                  ["SkfemVerif/Props/C03.lean", "SkfemVerif/Props/C03b.lean"],
                  extra_theorem_files=["SkfemVerif/Gen/TraceFacts.lean"])
    rng = ctx.rng
    n = ctx.scale(260, 2500)
    tried = 0
    while tried < n:
        tried += 1
        if ctx.time_left(0.9) < 0:
            break
        second = rng.random() < 0.12
        kind = rng.choice(["tri", "tri", "quad", "quad", "tet", "hex", "line"])
        m0, info = meshes.gen_first_order(rng, kind, holes=(rng.random() < 0.15))
        if rng.random() < (0.5 if kind in ("tri", "tet") else 0.25) and kind in ("line", "tri", "quad", "tet"):
            # meshes as obtained from the library's own operations (adaptive / uniform refinement, restriction)
            m0, ops = meshes.derive(rng, m0, kind)
            info = dict(info, derived=ops)
            ctx.count("derived-mesh")
        if m0.nelements < 2 or m0.nelements > 60 or not (m0.f2t[1] >= 0).any():
            continue
        cands = [(nm, f) for (nm, f) in elements.pool()[kind]]
        if rng.random() < 0.35:
            # elements whose continuity depends on the facet parametrisation: several DOFs per facet/edge or
            # globally defined functionals
            multi = [(nm, f) for (nm, f) in cands
                     if max(int(f().facet_dofs), int(f().edge_dofs)) >= 2 or elements.family(f()) == "global"]
            cands = multi or cands
        name, fac = rng.choice(cands)
        e = fac()
        base = name.split("(")[0]
        if rng.random() < 0.12 and elements.family(e) == "h1" and int(e.nodal_dofs) > 0 and kind != "line":
            from skfem import ElementVector
            e = ElementVector(e)
            name = f"ElementVector({name})"
        cat = category(e, name)
        if cat is None:
            ctx.count("no-claim")
            continue
        m = m0
        if base in STRUCTURED_ONLY or (elements.family(e) == "global" and kind in ("quad", "hex")):
            # the mesh family these elements support: structured, not re-ordered
            if kind == "quad":
                from skfem import MeshQuad
                m = MeshQuad.init_tensor(meshes.rand_axis(rng, rng.randint(1, 3)), meshes.rand_axis(rng, rng.randint(1, 3)))
            else:
                from skfem import MeshHex
                m = MeshHex.init_tensor(meshes.rand_axis(rng, 2), meshes.rand_axis(rng, 1), meshes.rand_axis(rng, 1))
            info = {"kind": kind, "gen": "structured"}
            if m.nelements < 2:
                continue
        elif second and kind in ("tri", "quad", "tet", "hex") and elements.family(e) != "global":
            m1, info1 = meshes.gen_first_order(rng, kind, reorder=False, holes=False)
            if m1.nelements < 2 or m1.nelements > 12:
                continue
            m = meshes.to_second_order(rng, m1, kind, curved=True)
            info = dict(info1, kind=kind + "2", curved=True)
        if kind == "line" and cat not in ("h1", "c1"):
            continue
        if kind == "tri" and type(m).__name__ == "MeshTri1" and m is m0 and rng.random() < 0.3:
            # the same cells handed to the default constructor with another local vertex order and another
            # integer dtype (unsigned ones included, as mesh generators and file readers produce them)
            dt = rng.choice([np.uint32, np.uint64, np.int64, np.uint16])
            t2 = meshes.local_reorder(rng, "tri", m.t.astype(np.int64))
            m = type(m)(m.p.copy(), np.ascontiguousarray(t2).astype(dt))
            info = dict(info, **{"connectivity-dtype": np.dtype(dt).name, "local-reorder": True})
            ctx.count("connectivity-dtype:" + np.dtype(dt).name)
        if kind == "tri" and type(m).__name__ == "MeshTri1" and m is m0 and rng.random() < 0.35 \
                and max(int(e.facet_dofs), int(e.edge_dofs)) <= 1 and elements.family(e) != "global":
            # cells kept in the order given (sort_t=False: oriented meshes, adaptive refinement): within the claim
            # for elements with at most one DOF per facet
            t2 = meshes.local_reorder(rng, "tri", m.t.astype(np.int64)).astype(np.int32)
            m = type(m)(m.p.copy(), np.ascontiguousarray(t2), sort_t=False)
            info = dict(info, **{"sort_t": False, "local-reorder": True})
            ctx.count("tri:sort_t=False")
        if elements.family(e) == "global" and m.t.shape[0] == m.elem.refdom.nnodes and rng.random() < 0.5:
            # ONE element object used first on a mesh and then on another mesh over the SAME vertex array with the
            # same number of cells (cells in another order, vertices of the cells in another order)
            try:
                Basis(m, e, intorder=1)
                perm = list(range(m.nelements))
                rng.shuffle(perm)
                t2 = m.t[:, perm]
                if kind in ("tri", "tet"):
                    t2 = meshes.local_reorder(rng, kind, t2.astype(np.int64)).astype(np.int32)
                m = type(m)(m.p, np.ascontiguousarray(t2))
                info = dict(info, **{"element-object-reused-on-twin": True})
                ctx.count("element-object-reused-on-twin")
            except Exception:
                pass
        composite = None
        if cat in ("h1", "hdiv", "hcurl") and kind in ("tri", "quad", "tet", "hex") and m is m0 \
                and rng.random() < (0.3 if kind in ("tet", "hex") else 0.1):
            # a composite of two conforming elements (different entity kinds carry their DOFs): every component
            # keeps the continuity of its element
            from skfem import ElementComposite
            c2 = [(nm, f) for (nm, f) in elements.pool()[kind] if not elements.is_skeleton(nm)
                  and category(f(), nm) in ("h1", "hdiv", "hcurl") and elements.family(f()) != "global"]
            if c2 and elements.family(e) != "global":
                n2, f2 = rng.choice(c2)
                e2 = f2()
                composite = (ElementComposite(e, e2) if rng.random() < 0.5 else ElementComposite(e2, e),
                             [cat, category(e2, n2)], [name, n2])
                if composite[0].elems[0] is e2:
                    composite = (composite[0], composite[1][::-1], composite[2][::-1])
                name = "ElementComposite(" + ",".join(composite[2]) + ")"
                ctx.count("composite-of-two-conforming-elements")
        descr = {"mesh": meshes.mesh_descr(m), "info": info, "element": name, "claim": cat}
        ctx.case({"t": m.t.tolist(), "p": m.p.tolist(), "element": name}, nontrivial=True,
                 sample={"info": info, "element": name, "claim": cat} if ctx.evaluations < 3 else None)
        ctx.count("claim:" + cat)
        ctx.count("mesh:" + info["kind"])
        if info.get("local-reorder"):
            ctx.count("locally-reordered")
        try:
            N = Basis(m, e, intorder=1).N
            x = np.array([rng.randint(-8, 8) / 4 for _ in range(N)])
            if kind == "line":
                # 1-D: facets are points; compare the two one-sided limits at every interior vertex directly
                b = Basis(m, e, quadrature=(np.array([[0.0, 1.0]]), np.array([0.5, 0.5])))
                u = b.interpolate(x)
                vals = np.asarray(u)
                res = []
                # orientation of a segment is arbitrary: collect all one-sided values per vertex
                per_vertex = {}
                for k in range(m.nelements):
                    for loc in (0, 1):
                        per_vertex.setdefault(int(m.t[loc, k]), []).append(
                            (vals[k, loc], np.asarray(u.grad)[0, k, loc]))
                jv = max((max(a[0] for a in l) - min(a[0] for a in l)) for l in per_vertex.values())
                res.append((jv, max(1.0, float(np.abs(vals).max())), "value"))
                if cat == "c1":
                    jg = max((max(a[1] for a in l) - min(a[1] for a in l)) for l in per_vertex.values())
                    res.append((jg, max(1.0, float(np.abs(np.asarray(u.grad)).max())), "gradient"))
            elif composite is not None:
                ec, cats, _ = composite
                N = Basis(m, ec, intorder=1).N
                x = np.array([rng.randint(-8, 8) / 4 for _ in range(N)])
                res = []
                for ci, cc in enumerate(cats):
                    res += [(j, sc, f"{what} of component {ci}") for (j, sc, what) in jumps(m, ec, cc, x, comp=ci)]
            else:
                res = jumps(m, e, cat, x)
        except Exception as ex:
            if "Newton iteration" in repr(ex):
                ctx.count("newton-inverse-did-not-converge(skipped)")   # convergence is not part of the claim
                continue
            ctx.violation("trace evaluation raised " + exc_kind(ex), dict(descr, err=repr(ex), trace=exc_trace()),
                          {"what": "raise", "element": base})
            continue
        for (j, sc, what) in res:
            # globally defined elements: the un-scaled power basis costs several digits (see C09)
            # (and the inverse Vandermonde matrix of a needle-shaped cell more: 4e-5 observed at aspect 190)
            tol = 1e-5 * min(1e3, max(1.0, cell_aspect(m) / 10.0) ** 2) if elements.family(e) == "global" else 1e-9
            if j > tol * sc:
                ctx.violation(f"discrete function has a jump in its {what} across an interior facet",
                              dict(descr, jump=j, x=x.tolist()),
                              {"what": "jump", "element": base, "p": getattr(e, "p", None),
                               "reordered": bool(info.get("local-reorder"))})
                break
    # ---- correspondence: the sign rules of the model vs the implementation's orient()/gbasis
    try:
        orient_correspondence(ctx, rng)
    except Exception as ex:
        ctx.broken.append({"kind": "correspondence-error", "err": repr(ex), "trace": exc_trace()})
    if ctx.tier == "thorough" and not getattr(ctx, "no_lean", False):
        ctx.leanchecker(["SkfemVerif.Props.C03"])


def orient_correspondence(ctx, rng):
    from skfem import element as E
    from skfem.element.element_h1 import ElementH1
    if not ctx.driver.available():
        ctx.broken.append({"kind": "driver-missing"})
        return
    reqs, post = [], []
    for it in range(ctx.scale(40, 300)):
        kind = rng.choice(["tri", "quad", "tet", "hex"])
        m, info = meshes.gen_first_order(rng, kind)
        if m.nelements > 40:
            continue
        if kind == "tri" and rng.random() < 0.5:
            # cells kept in the order given (sort_t=False): the sign rules compare the vertex numbers as stored
            t_un = meshes.local_reorder(rng, "tri", m.t.astype(np.int64)).astype(np.int32)
            m = type(m)(m.p, np.ascontiguousarray(t_un), sort_t=False)
            ctx.count("orient:tri-sort_t=False")
        mp = m.mapping()
        nt = m.nelements
        names = {"tri": ["ElementTriN1", "ElementTriN2", "ElementTriRT1", "ElementTriBDM1"],
                 "quad": ["ElementQuadN1", "ElementQuadRT1"],
                 "tet": ["ElementTetN1", "ElementTetRT1"], "hex": ["ElementHexRT1"]}[kind]
        name = rng.choice(names)
        e = getattr(E, name)()
        fam = elements.family(e)
        per = int(e.facet_dofs) if (m.dim() == 2 or fam == "hdiv") else int(e.edge_dofs)
        nent = (m.elem.refdom.nfacets if (fam == "hdiv" or m.dim() == 2) else m.elem.refdom.nedges)
        for ent in range(nent):
            i = ent * per
            impl = [int(v) for v in e.orient(mp, i)]
            if fam == "hcurl":
                a, b = (m.elem.refdom.edges if m.dim() == 3 else m.elem.refdom.facets)[ent]
                rows = [[int(m.t[a, k]), int(m.t[b, k])] for k in range(nt)]
                reqs.append({"op": "conf.orient", "kind": "hcurl", "rows": rows})
            else:
                rows = [[int(m.f2t[0, m.t2f[ent, k]]), k] for k in range(nt)]
                reqs.append({"op": "conf.orient", "kind": "hdiv", "rows": rows})
            post.append((fam + ".orient", {"element": name, "mesh": meshes.mesh_descr(m), "entity": ent}, impl))
        if kind == "quad":
            p = rng.choice([3, 4, 5])
            e = E.ElementQuadP(p)
            X = np.array([[0.3, 0.7], [0.2, 0.6]])
            for i in range(4, 4 + 4 * e.facet_dofs):
                ind = ((i - 4) % e.facet_dofs) + 2
                a, b = [(0, 1), (1, 2), (3, 2), (0, 3)][(i - 4) // e.facet_dofs]
                g = np.asarray(e.gbasis(mp, X, i)[0])
                h = np.asarray(ElementH1.gbasis(e, mp, X, i)[0])
                j = np.argmax(np.abs(h), axis=1)
                impl = [int(round(g[k, j[k]] / h[k, j[k]])) for k in range(nt)]
                rows = [[int(m.t[a, k]), int(m.t[b, k]), ind] for k in range(nt)]
                reqs.append({"op": "conf.orient", "kind": "quadp", "rows": rows})
                post.append(("quadp.orient", {"p": p, "i": i, "mesh": meshes.mesh_descr(m)}, impl))
    outs = ctx.driver.run(reqs)
    for (op, inp, impl), out in zip(post, outs):
        ctx.corr(op, out == impl, inp, out, impl)
