"""Shared machinery: context, Lean build/audit, driver, reporting, evidence.

Outcome protocol (DESIGN.md section 2.1):
  * proof obligations (lake build + axiom audit) and correspondence may *break*;
  * the failing-input search on the implementation decides whether a concrete
    violating input exists;
  * VIOLATION lines are printed only by `Ctx.finish`.
"""
from __future__ import annotations

import contextlib
import fcntl
import hashlib
import json
import os
import random
import re
import subprocess
import sys
import time
import traceback
from fractions import Fraction
from pathlib import Path

VERIF = Path(__file__).resolve().parents[2]
LEAN = VERIF / "lean"
REPO = Path(os.environ.get("SKV_REPO", "/repo"))
DRIVER = LEAN / ".lake" / "build" / "bin" / "driver"
ALLOWED_AXIOMS = {"propext", "Classical.choice", "Quot.sound"}
FORBIDDEN = re.compile(
    r"\b(sorry|admit|native_decide|bv_decide|implemented_by|unsafe)\b|^\s*axiom\s|maxHeartbeats\s+0\b",
    re.M)

_real_stdout = None


def capture_stdout():
    """Send everything libraries print on fd 1 to stderr; keep the real stdout
    for the VIOLATION / KNOWN-FINDING lines only."""
    global _real_stdout
    if _real_stdout is not None:
        return
    sys.stdout.flush()
    saved = os.dup(1)
    devnull = os.open(os.devnull, os.O_WRONLY)
    os.dup2(devnull, 1)          # C-level / library writes to stdout are discarded
    _real_stdout = os.fdopen(saved, "w", buffering=1)
    sys.stdout = sys.stderr


def emit(line: str):
    out = _real_stdout or sys.__stdout__
    out.write(line.rstrip("\n") + "\n")
    out.flush()


def log(*a):
    print(*a, file=sys.stderr, flush=True)


# --------------------------------------------------------------------------
# JSON helpers: exact rationals travel as "n/d" strings

def frac(x) -> Fraction:
    if isinstance(x, Fraction):
        return x
    if isinstance(x, (int,)):
        return Fraction(x)
    if isinstance(x, float):
        return Fraction(x)
    if isinstance(x, str):
        return Fraction(x)
    import numpy as np
    if isinstance(x, np.integer):
        return Fraction(int(x))
    if isinstance(x, np.floating):
        return Fraction(float(x))
    raise TypeError(type(x))


def qstr(x) -> str:
    f = frac(x)
    return f"{f.numerator}/{f.denominator}"


def qlist(a):
    import numpy as np
    a = np.asarray(a)
    if a.ndim == 0:
        return qstr(a.item())
    if a.ndim == 1:
        return [qstr(v) for v in a.tolist()]
    return [qlist(r) for r in a]


def unq(j):
    """parse a JSON value produced by the driver (nested lists of "n/d")"""
    if isinstance(j, str):
        return Fraction(j)
    if isinstance(j, list):
        return [unq(v) for v in j]
    return j


def jsonable(o):
    import numpy as np
    if isinstance(o, dict):
        return {str(k): jsonable(v) for k, v in o.items()}
    if isinstance(o, (list, tuple, set, frozenset)):
        return [jsonable(v) for v in o]
    if isinstance(o, np.ndarray):
        return jsonable(o.tolist())
    if isinstance(o, np.generic):
        return jsonable(o.item())
    if isinstance(o, Fraction):
        return qstr(o)
    if isinstance(o, complex):
        return [o.real, o.imag]
    if isinstance(o, float):
        if o != o or o in (float("inf"), float("-inf")):
            return repr(o)
        return o
    if isinstance(o, (int, str, bool)) or o is None:
        return o
    return repr(o)


# --------------------------------------------------------------------------
# Lean side

@contextlib.contextmanager
def lean_lock():
    lock = open(VERIF / ".lock", "w")
    try:
        fcntl.flock(lock, fcntl.LOCK_EX)
        yield
    finally:
        fcntl.flock(lock, fcntl.LOCK_UN)
        lock.close()


def write_if_changed(path: Path, text: str) -> bool:
    path.parent.mkdir(parents=True, exist_ok=True)
    if path.exists() and path.read_text() == text:
        return False
    tmp = path.with_suffix(path.suffix + ".tmp%d" % os.getpid())
    tmp.write_text(text)
    os.replace(tmp, path)
    return True


def lake_build(targets, timeout=3000):
    """Returns (ok, output)."""
    with lean_lock():
        p = subprocess.run(["lake", "build", *targets], cwd=LEAN, text=True,
                           stdout=subprocess.PIPE, stderr=subprocess.STDOUT,
                           timeout=timeout)
    return p.returncode == 0, p.stdout


THEOREM_RE = re.compile(r"^\s*(?:@\[[^\]]*\]\s*)?(?:protected\s+|private\s+)?(?:theorem|lemma)\s+([A-Za-z_][\w.']*)", re.M)
NAMESPACE_RE = re.compile(r"^\s*namespace\s+(\S+)|^\s*end\s+(\S+)", re.M)


def strip_comments(src: str) -> str:
    # remove block comments (nested) and line comments
    out = []
    i, depth = 0, 0
    n = len(src)
    while i < n:
        if src.startswith("/-", i):
            depth += 1
            i += 2
        elif depth and src.startswith("-/", i):
            depth -= 1
            i += 2
        elif depth:
            if src[i] == "\n":
                out.append("\n")
            i += 1
        elif src.startswith("--", i):
            while i < n and src[i] != "\n":
                i += 1
        else:
            out.append(src[i])
            i += 1
    return "".join(out)


def theorems_in(path: Path):
    """Fully qualified theorem names declared in a Lean file (simple namespace tracking)."""
    src = strip_comments(path.read_text())
    names = []
    ns = []
    for line in src.splitlines():
        m = re.match(r"\s*namespace\s+(\S+)", line)
        if m:
            ns.append(m.group(1))
            continue
        m = re.match(r"\s*end\s+(\S+)", line)
        if m and ns and ns[-1] == m.group(1):
            ns.pop()
            continue
        m = THEOREM_RE.match(line)
        if m:
            names.append(".".join(ns + [m.group(1)]))
    return names


def module_file(mod: str) -> Path:
    return LEAN / (mod.replace(".", "/") + ".lean")


def transitive_files(modules):
    """project files the given modules depend on (following `import SkfemVerif.*` lines)"""
    seen, todo = {}, list(modules)
    while todo:
        m = todo.pop()
        if m in seen:
            continue
        f = module_file(m)
        if not f.exists():
            continue
        seen[m] = f
        for mm in re.findall(r"^import\s+(SkfemVerif\.[\w.]+)", f.read_text(), re.M):
            todo.append(mm)
    return sorted(seen.values())


def forbidden_tokens(modules=None):
    """grep the Lean files the property depends on for constructs the brief forbids."""
    hits = []
    files = transitive_files(modules) if modules else sorted(LEAN.rglob("*.lean"))
    for p in files:
        if ".lake" in p.parts:
            continue
        src = strip_comments(p.read_text())
        for m in FORBIDDEN.finditer(src):
            line = src.count("\n", 0, m.start()) + 1
            hits.append(f"{p.relative_to(LEAN)}:{line}:{m.group(0).strip()}")
    return hits


def audit_axioms(modules, names, tag):
    """Run `#print axioms` on every name; returns dict name -> set(axioms) or None on failure."""
    body = "".join(f"import {m}\n" for m in modules)
    body += "".join(f"#print axioms {n}\n" for n in names)
    f = LEAN / f".audit_{tag}.lean"
    f.write_text(body)
    try:
        with lean_lock():
            p = subprocess.run(["lake", "env", "lean", f.name], cwd=LEAN, text=True,
                               stdout=subprocess.PIPE, stderr=subprocess.STDOUT, timeout=1200)
    finally:
        with contextlib.suppress(FileNotFoundError):
            f.unlink()
    out = p.stdout
    res = {}
    # outputs: "'name' depends on axioms: [a, b]" or "'name' does not depend on any axioms"
    for m in re.finditer(r"'([^']+)' depends on axioms: \[([^\]]*)\]", out, re.S):
        res[m.group(1)] = {a.strip() for a in m.group(2).replace("\n", " ").split(",") if a.strip()}
    for m in re.finditer(r"'([^']+)' does not depend on any axioms", out):
        res[m.group(1)] = set()
    return res, out, p.returncode


class Driver:
    """Batch access to the Lean model driver (JSON lines)."""

    def __init__(self):
        self.calls = 0

    def available(self):
        return DRIVER.exists()

    def run(self, reqs, timeout=1800):
        if not reqs:
            return []
        data = "".join(json.dumps(r, separators=(",", ":")) + "\n" for r in reqs)
        p = subprocess.run([str(DRIVER)], input=data, text=True, stdout=subprocess.PIPE,
                           stderr=subprocess.PIPE, timeout=timeout)
        lines = p.stdout.splitlines()
        self.calls += len(reqs)
        if len(lines) != len(reqs):
            raise RuntimeError(f"driver returned {len(lines)} lines for {len(reqs)} requests: "
                               f"{p.stderr[-2000:]}")
        return [json.loads(l) for l in lines]


# --------------------------------------------------------------------------
# known findings

def load_known():
    f = VERIF / "known_findings.json"
    if not f.exists():
        return []
    return json.loads(f.read_text()).get("findings", [])


class InfraError(Exception):
    pass


class Ctx:
    def __init__(self, pid: str, tier: str, seed: int):
        self.pid = pid
        self.tier = tier
        self.seed = seed
        self.rng = random.Random(f"{pid}:{seed}")
        self.t0 = time.time()
        self.budget = float(os.environ.get("VERIF_BUDGET_S", 0)) or (150 if tier == "quick" else 1500)
        self.driver = Driver()
        # proof layer
        self.obligations = 0
        self.discharged = 0
        self.checker_cmds = []
        self.trusted = []
        self.broken = []          # list of dicts describing broken obligations / correspondences
        self.theorems = []
        # exploration layer
        self.evaluations = 0
        self.distinct = set()
        self.samples = []
        self.dist = {}            # distribution counters
        self.corr_ops = {}
        self.rule = ""
        self.assumptions = []
        self.notes = {}
        self.exhaustive = False
        # outcomes
        self.violations = []      # (signature, replay dict)
        self.known_hits = []
        self.known = [k for k in load_known() if k.get("property") == pid]
        self._nviol = 0

    # -- time budget -------------------------------------------------------
    def elapsed(self):
        return time.time() - self.t0

    def time_left(self, frac_of_budget=1.0):
        return self.budget * frac_of_budget - self.elapsed()

    def scale(self, quick, thorough):
        return quick if self.tier == "quick" else thorough

    # -- counting ----------------------------------------------------------
    def count(self, key, n=1):
        self.dist[key] = self.dist.get(key, 0) + n

    def case(self, descr, nontrivial=True, sample=None):
        """register one explored case; `descr` is hashed for distinctness"""
        self.evaluations += 1
        if nontrivial:
            h = hashlib.sha1(json.dumps(jsonable(descr), sort_keys=True).encode()).hexdigest()
            self.distinct.add(h)
        if sample is not None and len(self.samples) < 6:
            self.samples.append(jsonable(sample))
        elif len(self.samples) < 3 and nontrivial:
            s = jsonable(descr)
            txt = json.dumps(s)
            if len(txt) < 1500:
                self.samples.append(s)

    # -- proof layer ---------------------------------------------------------
    def prove(self, modules, prop_files, extra_theorem_files=(), gen_changed=False):
        """Build the Lean modules, audit axioms of every theorem in prop_files.

        modules: lake targets (module names); prop_files: paths relative to lean/
        """
        targets = list(modules)
        cmd = "cd lean && lake build " + " ".join(targets)
        self.checker_cmds.append(cmd)
        hits = forbidden_tokens(modules)
        if hits:
            self.broken.append({"kind": "forbidden-construct", "where": hits[:20]})
        ok, out = lake_build(targets + ["driver"])
        names = []
        for pf in list(prop_files) + list(extra_theorem_files):
            names += theorems_in(LEAN / pf)
        self.theorems = names
        self.obligations += len(names)
        if not ok:
            errs = [l for l in out.splitlines() if "error" in l][:30]
            self.broken.append({"kind": "lake-build-failed", "targets": targets, "errors": errs,
                                "tail": out[-3000:]})
            # which theorems still check?  Audit individually is impossible if import fails.
            log(out[-3000:])
            return False
        mods = [m for m in modules if ".Props." in m or ".Gen." in m] or list(modules)
        res, aout, rc = audit_axioms(mods, names, self.pid)
        self.checker_cmds.append("lake env lean <#print axioms of every property theorem>")
        bad = {}
        for n in names:
            ax = res.get(n)
            if ax is None:
                # try with last component match
                bad[n] = "no-audit-output"
            elif not ax <= ALLOWED_AXIOMS:
                bad[n] = sorted(ax - ALLOWED_AXIOMS)
            else:
                self.discharged += 1
        if bad:
            self.broken.append({"kind": "axiom-audit", "theorems": bad, "tail": aout[-2000:]})
            return False
        return True

    def leanchecker(self, modules):
        """thorough tier: independent re-check of the compiled modules"""
        try:
            with lean_lock():
                p = subprocess.run(["lake", "env", "leanchecker", *modules], cwd=LEAN, text=True,
                                   stdout=subprocess.PIPE, stderr=subprocess.STDOUT, timeout=3000)
            self.checker_cmds.append("cd lean && lake env leanchecker " + " ".join(modules))
            if p.returncode != 0:
                self.broken.append({"kind": "leanchecker", "tail": p.stdout[-2000:]})
                return False
            self.notes["leanchecker"] = "ok"
            return True
        except subprocess.TimeoutExpired:
            self.notes["leanchecker"] = "timeout (not counted)"
            return True

    # -- correspondence -------------------------------------------------------
    def corr(self, op, agree: bool, inp=None, model=None, impl=None):
        d = self.corr_ops.setdefault(op, {"n": 0, "mismatch": 0})
        d["n"] += 1
        if not agree:
            d["mismatch"] += 1
            if d["mismatch"] <= 3:
                self.broken.append({"kind": "correspondence", "op": op, "input": jsonable(inp),
                                    "model": jsonable(model), "impl": jsonable(impl)})
        return agree

    # -- search on the implementation ------------------------------------------
    def violation(self, what: str, replay: dict, signature: dict | None = None):
        """a concrete input on which the property fails on the implementation"""
        signature = signature or {}
        for k in self.known:
            if k.get("status") == "known" and _sig_match(k.get("signature", {}), signature):
                if k["id"] not in [h["id"] for h in self.known_hits]:
                    self.known_hits.append({"id": k["id"], "what": k.get("what", what)})
                self.count("known-finding:" + k["id"])
                return
        if len(self.violations) < 5:
            self.violations.append({"what": what, "signature": signature, "replay": replay})
        self._nviol += 1
        if self._nviol <= 25:
            log(f"  violation #{self._nviol}: {what} {json.dumps(jsonable(signature))[:300]}")

    # -- finish ---------------------------------------------------------------
    def write_replay(self, obj):
        d = VERIF / "replays"
        d.mkdir(exist_ok=True)
        n = 0
        while True:
            p = d / f"{self.pid}_{self.tier}_s{self.seed}_{n}.json"
            if not p.exists():
                break
            n += 1
        p.write_text(json.dumps(jsonable(obj), indent=1))
        return p

    def translator_failed(self, what, err, covered_by):
        """The translator could not read the live source (its shape left the recognised subset).  The generated
        Lean file then keeps the content of the last successful translation, so the theorems are about that
        model; it stays TIED to the live code iff the exact correspondence ops `covered_by` (model vs
        implementation on the same inputs) all ran and agree.  Decided in finish(): only if they did not is this
        a broken obligation."""
        self.__dict__.setdefault("_translator_failures", []).append(
            {"what": what, "err": repr(err)[:300], "covered_by": list(covered_by)})

    def _settle_translator_failures(self):
        for tf in self.__dict__.get("_translator_failures", []):
            ops = [self.corr_ops.get(op, {"n": 0, "mismatch": 1}) for op in tf["covered_by"]]
            built = not any(b.get("kind") in ("lake-build-failed", "axiom-audit", "forbidden-construct")
                            for b in self.broken)
            if tf["covered_by"] and built and all(o["n"] > 0 and o["mismatch"] == 0 for o in ops):
                self.notes.setdefault("translator_not_applicable", []).append(
                    dict(tf, tie="generated model kept from the last successful translation; tied to the live "
                                 "code by the exact correspondence ops " + ", ".join(
                                     f"{op} ({self.corr_ops[op]['n']} agreeing)" for op in tf["covered_by"])))
                log(f"[{self.pid}] translator not applicable ({tf['what']}); tie by correspondence "
                    f"{tf['covered_by']}")
            else:
                self.broken.append({"kind": "translator", "what": tf["what"], "err": tf["err"],
                                    "correspondence_fallback": {op: self.corr_ops.get(op) for op in tf["covered_by"]}})
        self.__dict__["_translator_failures"] = []

    def finish(self):
        rc = 0
        self._settle_translator_failures()
        for h in self.known_hits:
            emit(f"KNOWN-FINDING: property={self.pid} {h['id']} {h['what']}")
        if self.violations:
            rc = 1
            for v in self.violations[:3]:
                rp = self.write_replay({"property": self.pid, "kind": "failing-input", "seed": self.seed,
                                        "tier": self.tier, "what": v["what"], "signature": v["signature"],
                                        "input": v["replay"], "broken_obligations": self.broken[:5]})
                emit(f"VIOLATION property={self.pid} replay={rp}")
        elif self.broken:
            rc = 1
            rp = self.write_replay({"property": self.pid, "kind": "broken-obligation", "seed": self.seed,
                                    "tier": self.tier,
                                    "what": "a proof obligation or correspondence no longer checks; "
                                            "the search on the implementation found no failing input",
                                    "broken": self.broken[:10]})
            emit(f"VIOLATION property={self.pid} replay={rp} no-failing-input-found")
        self.write_evidence(rc)
        return rc

    def write_evidence(self, rc):
        cov = {
            "obligations": self.obligations,
            "discharged": self.discharged,
            "checker_cmd": " ; ".join(dict.fromkeys(self.checker_cmds)) or "none",
            "trusted_base": self.trusted,
            "theorems": self.theorems,
            "evaluations": self.evaluations,
            "distinct_nontrivial": len(self.distinct),
            "rule": self.rule,
            "samples": self.samples or [{"note": "no sample recorded"}],
            "correspondence_ops": self.corr_ops,
            "input_distribution": self.dist,
            "broken_obligations": len(self.broken),
            "known_findings_hit": [h["id"] for h in self.known_hits],
            "exhaustive": self.exhaustive,
        }
        cov.update(self.notes)
        ev = {
            "property_id": self.pid,
            "tier": self.tier,
            "seed": self.seed,
            "level": "proof",
            "coverage": jsonable(cov),
            "assumptions": self.assumptions,
            "wall_s": round(self.elapsed(), 2),
            "violations": self._nviol + (1 if (self.broken and not self._nviol) else 0),
        }
        d = VERIF / "evidence"
        d.mkdir(exist_ok=True)
        (d / f"{self.pid}.json").write_text(json.dumps(ev, indent=1))


def _sig_match(pattern: dict, sig: dict) -> bool:
    """every key of the pattern must be present in sig with an equal value
    (or contained, if the pattern value is a list)"""
    if not pattern:
        return False
    for k, v in pattern.items():
        if k not in sig:
            return False
        if isinstance(v, list):
            if sig[k] not in v:
                return False
        elif sig[k] != v:
            return False
    return True


def exc_trace(limit=6) -> str:
    """short traceback of the exception being handled (for replays)"""
    return traceback.format_exc(limit=-limit)[-1500:]


def exc_kind(e: BaseException) -> str:
    for k in (ValueError, IndexError, NotImplementedError, KeyError, TypeError, AttributeError):
        if isinstance(e, k):
            return k.__name__
    return "other:" + type(e).__name__
