"""Element pool: every exported element class plus wrapper combinations."""
from __future__ import annotations

import skfem
from skfem import element as E
from skfem.element.element_matrix import ElementMatrix
from skfem.element import (ElementVector, ElementComposite, ElementDG, ElementGlobal, ElementH1, ElementHdiv,
                           ElementHcurl)

KIND_OF_REFDOM = {"RefLine": "line", "RefTri": "tri", "RefQuad": "quad", "RefTet": "tet", "RefHex": "hex",
                  "RefWedge": "wedge"}

ABSTRACT = {"DiscreteField", "Element", "ElementH1", "ElementVector", "ElementVectorH1", "ElementHdiv",
            "ElementHcurl", "ElementGlobal", "ElementDG", "ElementComposite", "ElementMatrix",
            "ElementTriDG", "ElementQuadDG", "ElementTetDG", "ElementHexDG", "ElementH2"}


def make(name, p=None):
    cls = getattr(E, name)
    if name in ("ElementLinePp", "ElementQuadP"):
        return cls(p or 3)
    return cls()


_POOL = None


def pool():
    """kind -> list of (name, factory)"""
    global _POOL
    if _POOL is not None:
        return _POOL
    out = {k: [] for k in KIND_OF_REFDOM.values()}
    for name in E.__all__:
        if name in ABSTRACT:
            continue
        try:
            e = make(name)
        except Exception:
            continue
        kind = KIND_OF_REFDOM.get(e.refdom.__name__)
        if kind is None:
            continue
        if name in ("ElementLinePp", "ElementQuadP"):
            for p in (1, 2, 3, 4):
                out[kind].append((f"{name}({p})", (lambda name=name, p=p: make(name, p))))
        else:
            out[kind].append((name, (lambda name=name: make(name))))
    _POOL = out
    return out


def family(e):
    if isinstance(e, ElementMatrix):
        return "matrix"
    if isinstance(e, ElementGlobal):
        return "global"
    if isinstance(e, ElementHdiv):
        return "hdiv"
    if isinstance(e, ElementHcurl):
        return "hcurl"
    if isinstance(e, ElementMatrix):
        return "matrix"
    if isinstance(e, ElementVector):
        return "vector"
    if isinstance(e, ElementComposite):
        return "composite"
    if isinstance(e, ElementDG):
        return "dg"
    return "h1"


def is_skeleton(name):
    return "Skeleton" in name


def gen_element(rng, kind, wrappers=True, exclude=()):
    """random element (possibly wrapped) for a mesh kind; returns (element, name)"""
    cands = [(n, f) for (n, f) in pool()[kind] if not any(x in n for x in exclude)]
    name, f = rng.choice(cands)
    e = f()
    r = rng.random()
    if not wrappers or r < 0.55:
        return e, name
    scalar_h1 = [(n, g) for (n, g) in cands if family(g()) == "h1" and not is_skeleton(n)]
    if r < 0.7 and family(e) == "h1" and not is_skeleton(name):
        return ElementVector(e), f"ElementVector({name})"
    if r < 0.8 and family(e) in ("h1", "hdiv", "hcurl") and not is_skeleton(name):
        return ElementDG(e), f"ElementDG({name})"
    # composite of 2..3 components with different entity counts
    n2, f2 = rng.choice(cands)
    comps = [(name, e), (n2, f2())]
    if rng.random() < 0.3 and scalar_h1:
        n3, f3 = rng.choice(scalar_h1)
        if rng.random() < 0.5:
            comps.append((f"ElementVector({n3})", ElementVector(f3())))
        else:
            comps.append((n3, f3()))
    if any(family(c[1]) == "global" for c in comps) or any(is_skeleton(c[0]) for c in comps):
        return e, name
    return ElementComposite(*[c[1] for c in comps]), "ElementComposite(" + ",".join(c[0] for c in comps) + ")"


def counts(e):
    return [int(e.nodal_dofs), int(e.edge_dofs), int(e.facet_dofs), int(e.interior_dofs)]
