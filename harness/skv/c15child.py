"""C15 helper: evaluate recorded operations on freshly built objects in a NEW interpreter.

usage: python -m skv.c15child jobs.pkl out.pkl
jobs = list of (snapshot, description); snapshot = plain-data image of the pool (mesh fields, recipes).
"""
import pickle
import sys
import warnings
import logging


def snapshot(pool):
    import dataclasses
    from .c15pool import copy_val
    ms = []
    for e in pool.meshes:
        m = e["obj"]
        ms.append({"cls": type(m).__name__,
                   "fields": {f.name: copy_val(getattr(m, f.name)) for f in dataclasses.fields(m)
                              if f.name != "elem"}})
    return {"meshes": ms, "elems": [e["recipe"] for e in pool.elems], "bases": [b["recipe"] for b in pool.bases],
            "solvers": [s["recipe"] for s in pool.solvers], "mappings": [m["recipe"] for m in pool.mappings]}


def restore(snap):
    import skfem
    from .c15ops import Pool
    p = Pool()
    for m in snap["meshes"]:
        p.meshes.append({"obj": getattr(skfem, m["cls"])(**m["fields"])})
    p.elems = [{"recipe": r} for r in snap["elems"]]
    p.bases = [{"recipe": r} for r in snap["bases"]]
    p.solvers = [{"recipe": r} for r in snap["solvers"]]
    p.mappings = [{"recipe": r} for r in snap["mappings"]]
    return p


def main():
    warnings.filterwarnings("ignore")
    logging.disable(logging.WARNING)
    from .c15ops import Fresh, execute
    from .c15pool import canon
    jobs = pickle.load(open(sys.argv[1], "rb"))
    out = []
    for snap, d in jobs:
        try:
            pool = restore(snap)
            r, _, _ = execute(d, Fresh(pool))
            out.append(("ok", canon(r)))
        except Exception as ex:  # noqa
            out.append(("exc", type(ex).__name__, repr(ex)[:300]))
    pickle.dump(out, open(sys.argv[2], "wb"))


if __name__ == "__main__":
    main()
