"""Mesh generators: every mesh class, irregular, renumbered, locally re-ordered.

All random choices derive from the `random.Random` passed in.  Coordinates are
small dyadic rationals so that exact (Fraction) oracles apply.
"""
from __future__ import annotations

import itertools
import numpy as np

import skfem
from skfem import (MeshLine1, MeshTri1, MeshQuad1, MeshTet1, MeshHex1, MeshWedge1,
                   MeshTri2, MeshQuad2, MeshTet2, MeshHex2)

FIRST_ORDER = ["line", "tri", "quad", "tet", "hex", "wedge"]
SECOND_ORDER = ["tri2", "quad2", "tet2", "hex2"]
CLS = {"line": MeshLine1, "tri": MeshTri1, "quad": MeshQuad1, "tet": MeshTet1,
       "hex": MeshHex1, "wedge": MeshWedge1, "tri2": MeshTri2, "quad2": MeshQuad2,
       "tet2": MeshTet2, "hex2": MeshHex2}


def dyadic(rng, lo, hi, bits=3):
    s = 1 << bits
    return rng.randint(int(lo * s), int(hi * s)) / s


def rand_axis(rng, n, bits=3):
    """n+1 strictly increasing dyadic breakpoints starting at a random origin"""
    x = [dyadic(rng, -1, 1, bits)]
    for _ in range(n):
        x.append(x[-1] + rng.randint(1, 6) / (1 << bits))
    return np.array(x)


# the 24 rotations of the hexahedron as permutations of the local vertex numbers
def _hex_rotations():
    from skfem.refdom import RefHex
    P = RefHex.p.T  # 8 x 3
    pts = [tuple(int(v) for v in p) for p in P]
    rots = []
    for perm in itertools.permutations(range(3)):
        for signs in itertools.product([0, 1], repeat=3):
            # map x -> (x[perm]) with optional reflection 1-x
            M = np.zeros((3, 3))
            for i in range(3):
                M[i, perm[i]] = -1 if signs[i] else 1
            if round(np.linalg.det(M)) != 1:
                continue
            new = []
            for p in pts:
                q = tuple(int((1 - p[perm[i]]) if signs[i] else p[perm[i]]) for i in range(3))
                new.append(pts.index(q))
            rots.append(new)
    assert len(rots) == 24
    return rots


HEX_ROT = None


def hex_rotations():
    global HEX_ROT
    if HEX_ROT is None:
        HEX_ROT = _hex_rotations()
    return HEX_ROT


def local_reorder(rng, kind, t):
    """re-order the local vertices of every cell by an admissible permutation"""
    t = t.copy()
    nt = t.shape[1]
    if kind in ("tri", "tet", "line"):
        for k in range(nt):
            perm = list(range(t.shape[0]))
            rng.shuffle(perm)
            t[:, k] = t[perm, k]
    elif kind == "quad":
        for k in range(nt):
            s = rng.randrange(4)
            t[:, k] = np.roll(t[:, k], s)
    elif kind == "hex":
        rots = hex_rotations()
        for k in range(nt):
            r = rots[rng.randrange(24)]
            t[:, k] = t[r, k]
    # wedges: the library identifies triangular facets through a repeated local index
    # ([0,1,2,0]); local re-orderings are not among the admissible orders named by the
    # properties, so none is applied.
    return t


def base_mesh(rng, kind, size=None):
    """an irregular mesh of the given first-order kind; returns (p, t, info)"""
    info = {}
    if kind == "line":
        n = size or rng.randint(1, 7)
        x = rand_axis(rng, n)
        p = x[None, :]
        t = np.vstack((np.arange(n), np.arange(1, n + 1)))
        info["gen"] = "axis"
    elif kind == "tri":
        mode = rng.choice(["tensor", "delaunay", "delaunay", "refined"])
        info["gen"] = mode
        if mode == "tensor":
            m = MeshTri1.init_tensor(rand_axis(rng, rng.randint(1, 3)), rand_axis(rng, rng.randint(1, 3)))
            p, t = m.p, m.t
        elif mode == "refined":
            m = MeshTri1().refined(rng.randint(0, 2))
            p, t = m.p, m.t
        else:
            from scipy.spatial import Delaunay
            while True:
                npts = size or rng.randint(4, 12)
                pts = set()
                while len(pts) < npts:
                    pts.add((rng.randint(-8, 8) / 4, rng.randint(-8, 8) / 4))
                pts = np.array(sorted(pts))
                try:
                    d = Delaunay(pts)
                except Exception:
                    continue
                tt = d.simplices.T
                # drop degenerate (zero area) simplices
                a = pts[tt[1]] - pts[tt[0]]
                b = pts[tt[2]] - pts[tt[0]]
                area = a[:, 0] * b[:, 1] - a[:, 1] * b[:, 0]
                tt = tt[:, np.abs(area) > 1e-12]
                if tt.shape[1] >= 2 and len(np.unique(tt)) == len(pts):
                    break
            p, t = pts.T.copy(), tt
    elif kind == "quad":
        m = MeshQuad1.init_tensor(rand_axis(rng, rng.randint(1, 3)), rand_axis(rng, rng.randint(1, 3)))
        p, t = m.p.copy(), m.t.copy()
        info["gen"] = "tensor"
        if rng.random() < 0.5:
            # jiggle interior vertices a little (keeps cells convex): general quadrilaterals
            bn = m.boundary_nodes()
            for v in range(p.shape[1]):
                if v not in bn:
                    p[:, v] += np.array([rng.randint(-1, 1), rng.randint(-1, 1)]) / 32
            info["gen"] = "tensor-jiggled"
    elif kind == "tet":
        mode = rng.choice(["tensor", "delaunay", "default"])
        info["gen"] = mode
        if mode == "tensor":
            m = MeshTet1.init_tensor(rand_axis(rng, rng.randint(1, 2)), rand_axis(rng, rng.randint(1, 2)),
                                     rand_axis(rng, 1))
            p, t = m.p, m.t
        elif mode == "default":
            m = MeshTet1().refined(rng.randint(0, 1))
            p, t = m.p, m.t
        else:
            from scipy.spatial import Delaunay
            while True:
                npts = size or rng.randint(5, 10)
                pts = set()
                while len(pts) < npts:
                    pts.add((rng.randint(-4, 4) / 2, rng.randint(-4, 4) / 2, rng.randint(-4, 4) / 2))
                pts = np.array(sorted(pts))
                try:
                    d = Delaunay(pts)
                except Exception:
                    continue
                tt = d.simplices.T
                a = pts[tt[1]] - pts[tt[0]]
                b = pts[tt[2]] - pts[tt[0]]
                c = pts[tt[3]] - pts[tt[0]]
                vol = np.einsum('ij,ij->i', np.cross(a, b), c)
                tt = tt[:, np.abs(vol) > 1e-12]
                if tt.shape[1] >= 2 and len(np.unique(tt)) == len(pts):
                    break
            p, t = pts.T.copy(), tt
    elif kind == "hex":
        m = MeshHex1.init_tensor(rand_axis(rng, rng.randint(1, 2)), rand_axis(rng, rng.randint(1, 2)),
                                 rand_axis(rng, rng.randint(1, 2)))
        p, t = m.p.copy(), m.t.copy()
        info["gen"] = "tensor"
    elif kind == "wedge":
        mt = MeshTri1.init_tensor(rand_axis(rng, rng.randint(1, 2)), rand_axis(rng, rng.randint(1, 2)))
        m = mt * skfem.MeshLine(rand_axis(rng, rng.randint(1, 2)))
        p, t = m.p.copy(), m.t.copy()
        info["gen"] = "tensor"
    else:
        raise ValueError(kind)
    return np.array(p, dtype=np.float64), np.array(t, dtype=np.int64), info


def renumber(rng, p, t):
    nv = p.shape[1]
    perm = list(range(nv))
    rng.shuffle(perm)
    perm = np.array(perm)          # new index -> old index
    inv = np.empty(nv, dtype=np.int64)
    inv[perm] = np.arange(nv)      # old -> new
    return p[:, perm], inv[t], inv


def permute_cells(rng, t):
    idx = list(range(t.shape[1]))
    rng.shuffle(idx)
    return t[:, idx], np.array(idx)


def drop_cells(rng, p, t):
    """remove a few cells (creates holes / several components), then unused vertices"""
    nt = t.shape[1]
    if nt < 4:
        return p, t
    keep = [k for k in range(nt) if rng.random() < 0.8]
    if len(keep) < 2:
        return p, t
    t = t[:, keep]
    used = np.unique(t)
    remap = -np.ones(p.shape[1], dtype=np.int64)
    remap[used] = np.arange(len(used))
    return p[:, used], remap[t]


def gen_first_order(rng, kind=None, renum=None, reorder=None, holes=None, size=None):
    """returns (mesh, descr)"""
    kind = kind or rng.choice(FIRST_ORDER)
    p, t, info = base_mesh(rng, kind, size)
    if holes if holes is not None else (rng.random() < 0.25):
        p, t = drop_cells(rng, p, t)
        info["holes"] = True
    if renum if renum is not None else (rng.random() < 0.7):
        p, t, _ = renumber(rng, p, t)
        info["renumbered"] = True
    if rng.random() < 0.6:
        t, _ = permute_cells(rng, t)
        info["cells-permuted"] = True
    if reorder if reorder is not None else (rng.random() < 0.6):
        t = local_reorder(rng, kind, t)
        info["local-reorder"] = True
    m = CLS[kind](p, t.astype(np.int32))
    info.update(kind=kind, nt=int(m.t.shape[1]), nv=int(m.p.shape[1]))
    return m, info


def to_second_order(rng, m, kind, curved=True):
    cls2 = CLS[kind + "2"]
    m2 = cls2.from_mesh(m)
    if curved:
        p = m2.p.copy()
        nv = m.p.shape[1]
        # mild curvature: move the non-vertex nodes by at most ~3% of the shortest edge (dyadic step),
        # so that every cell stays a valid (invertible) isoparametric image
        ed = m.edges if m.dim() == 3 else m.facets
        elen = np.sqrt(((m.p[:, ed[0]] - m.p[:, ed[1]]) ** 2).sum(axis=0))
        # smallest "height" of a cell: measure / (longest edge)^(d-1), so that thin cells stay valid
        d = m.dim()
        X = np.asarray(m.elem.refdom.p, dtype=float).mean(axis=1)[:, None]
        det = np.abs(m.mapping().detDF(X))[:, 0]
        t2e = m.t2e if d == 3 else m.t2f
        hmin = float(min(elen.min(), (det / elen[t2e].max(axis=0) ** (d - 1)).min()))
        step = 2.0 ** np.floor(np.log2(hmin / 32))
        for j in range(nv, p.shape[1]):
            if rng.random() < 0.5:
                p[:, j] += np.array([rng.randint(-1, 1) for _ in range(p.shape[0])]) * step
        m2 = cls2(p, m2.t)
    return m2


def gen_mesh(rng, kinds=None, second_order=False, **kw):
    kinds = kinds or FIRST_ORDER
    kind = rng.choice(kinds)
    if kind.endswith("2"):
        base = kind[:-1]
        m, info = gen_first_order(rng, base, reorder=False, **kw)
        curved = rng.random() < 0.6
        m2 = to_second_order(rng, m, base, curved)
        info.update(kind=kind, curved=curved)
        return m2, info
    return gen_first_order(rng, kind, **kw)


def derive(rng, m, kind):
    """apply one or two library operations that return new meshes (uniform / adaptive refinement, restriction):
    meshes as users actually obtain them; returns (mesh, list of op names)"""
    ops = []
    for _ in range(rng.randint(1, 2)):
        if m.nelements > 40:
            break
        r = rng.random()
        try:
            if r < 0.45 and kind in ("line", "tri", "tet"):
                k = rng.randint(1, max(1, min(m.nelements, 4)))
                marked = np.array(sorted(rng.sample(range(m.nelements), k)), dtype=np.int32)
                m = m.refined(marked)
                ops.append("adaptive")
            elif r < 0.7 and kind != "wedge" and m.nelements <= 12:
                m = m.refined(1)
                ops.append("uniform")
            elif m.nelements >= 3:
                keep = np.array(sorted(rng.sample(range(m.nelements), rng.randint(2, m.nelements))), dtype=np.int32)
                m = m.restrict(keep)
                ops.append("restrict")
        except Exception:
            break
    return m, ops


def mesh_descr(m):
    return {"cls": type(m).__name__, "p": m.p.tolist(), "t": m.t.tolist()}


def random_tags(rng, m, oriented=True, interior=True, nb=None, ns=None):
    """attach random named boundaries (arbitrary facet subsets, interior facets included,
    optionally oriented on interior facets) and named subdomains (arbitrary cell subsets);
    returns (mesh, tags) with tags = {"boundaries": {name: (indices, ori or None)},
    "subdomains": {name: indices}}"""
    from skfem.generic_utils import OrientedBoundary
    nf, nt = m.nfacets, m.nelements
    bnd = set(int(f) for f in m.boundary_facets())
    tags = {"boundaries": {}, "subdomains": {}}
    bdict, sdict = {}, {}
    for i in range(nb if nb is not None else rng.randint(1, 3)):
        pool = list(range(nf)) if (interior and rng.random() < 0.6) else sorted(bnd)
        if not pool:
            continue
        k = rng.randint(1, max(1, min(len(pool), 6)))
        ix = sorted(rng.sample(pool, k))
        name = f"b{i}"
        if oriented and rng.random() < 0.5:
            ori = [rng.randint(0, 1) if f not in bnd else 0 for f in ix]
            bdict[name] = OrientedBoundary(np.array(ix, dtype=np.int32), np.array(ori, dtype=np.int32))
            tags["boundaries"][name] = (ix, ori)
        else:
            bdict[name] = np.array(ix, dtype=np.int32)
            tags["boundaries"][name] = (ix, None)
    for i in range(ns if ns is not None else rng.randint(1, 2)):
        k = rng.randint(1, max(1, nt - 1)) if nt > 1 else 1
        ix = sorted(rng.sample(range(nt), k))
        sdict[f"s{i}"] = np.array(ix, dtype=np.int32)
        tags["subdomains"][f"s{i}"] = ix
    mm = m.with_boundaries(bdict).with_subdomains(sdict) if bdict else m.with_subdomains(sdict)
    return mm, tags
