"""Regenerate lean/SkfemVerif/Gen/*.lean from /repo's live modules (translators T1..T5)."""
import sys


def main():
    ok = True
    # generators register themselves here as they are built
    from . import gens
    for name, fn in gens.ALL:
        try:
            changed = fn()
            print(f"gen {name}: {'updated' if changed else 'unchanged'}", file=sys.stderr)
        except Exception as e:  # a translator that cannot parse what it finds reports a broken tie
            ok = False
            print(f"gen {name}: FAILED {e!r}", file=sys.stderr)
    return 0 if ok else 1


if __name__ == "__main__":
    sys.exit(main())
