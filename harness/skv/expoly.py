"""Exact multivariate polynomials (Fraction coefficients) usable inside NumPy object arrays.

Used to trace `Element.lbasis` symbolically (translator T1) and as an exact oracle.
"""
from __future__ import annotations

from fractions import Fraction
import numbers

import numpy as np

SNAP_MAX_DEN = 10000
SNAP_TOL = Fraction(1, 2 ** 40)


class SnapLog:
    """largest distance between a float literal and the simple rational it was read as"""
    worst = Fraction(0)
    unsnapped = 0


def snap(x) -> Fraction:
    """exact value of a Python number; float literals such as 0.333… are read as the simple
    rational (denominator <= 10^4) within 2^-40 if there is one (the distance is logged)"""
    if isinstance(x, Fraction):
        return x
    if isinstance(x, (bool, np.bool_)):
        return Fraction(int(x))
    if isinstance(x, (int, np.integer)):
        return Fraction(int(x))
    if isinstance(x, (float, np.floating)):
        f = Fraction(float(x))
        g = f.limit_denominator(SNAP_MAX_DEN)
        d = abs(f - g)
        if d <= SNAP_TOL:
            if d > SnapLog.worst:
                SnapLog.worst = d
            return g
        SnapLog.unsnapped += 1
        return f
    raise TypeError(f"cannot convert {type(x)} exactly")


class P:
    """polynomial in `nvars` variables: dict exponent-tuple -> Fraction"""
    __array_priority__ = 1000

    def __init__(self, nvars, terms=None):
        self.n = nvars
        self.t = {k: v for k, v in (terms or {}).items() if v != 0}

    # ---- constructors
    @staticmethod
    def var(i, n):
        e = [0] * n
        e[i] = 1
        return P(n, {tuple(e): Fraction(1)})

    @staticmethod
    def const(c, n):
        return P(n, {tuple([0] * n): snap(c)})

    def _coerce(self, o):
        if isinstance(o, P):
            return o
        if isinstance(o, (numbers.Number, np.number, Fraction)):
            if isinstance(o, (complex, np.complexfloating)):
                raise TypeError("complex")
            return P.const(o, self.n)
        if isinstance(o, np.ndarray) and o.ndim == 0:
            return self._coerce(o.item())
        return None

    # ---- arithmetic
    def __add__(self, o):
        o = self._coerce(o)
        if o is None:
            return NotImplemented
        t = dict(self.t)
        for k, v in o.t.items():
            t[k] = t.get(k, 0) + v
        return P(self.n, t)

    __radd__ = __add__

    def __neg__(self):
        return P(self.n, {k: -v for k, v in self.t.items()})

    def __pos__(self):
        return self

    def __sub__(self, o):
        o = self._coerce(o)
        if o is None:
            return NotImplemented
        return self + (-o)

    def __rsub__(self, o):
        o = self._coerce(o)
        if o is None:
            return NotImplemented
        return o + (-self)

    def __mul__(self, o):
        o = self._coerce(o)
        if o is None:
            return NotImplemented
        t = {}
        for k1, v1 in self.t.items():
            for k2, v2 in o.t.items():
                k = tuple(a + b for a, b in zip(k1, k2))
                t[k] = t.get(k, 0) + v1 * v2
        return P(self.n, t)

    __rmul__ = __mul__

    def __truediv__(self, o):
        o = self._coerce(o)
        if o is None:
            return NotImplemented
        if not o.is_const() or o.constant() == 0:
            raise TypeError("division by a non-constant polynomial")
        c = o.constant()
        return P(self.n, {k: v / c for k, v in self.t.items()})

    def __rtruediv__(self, o):
        raise TypeError("division by a polynomial")

    def __pow__(self, k):
        if isinstance(k, (float, np.floating)) and float(k).is_integer():
            k = int(k)
        if not isinstance(k, (int, np.integer)) or k < 0:
            raise TypeError("non-integer power")
        r = P.const(1, self.n)
        for _ in range(int(k)):
            r = r * self
        return r

    # comparisons are not supported (piecewise definitions cannot be traced)
    def __lt__(self, o):
        raise TypeError("comparison of a symbolic polynomial")
    __gt__ = __le__ = __ge__ = __lt__

    def __bool__(self):
        raise TypeError("truth value of a symbolic polynomial")

    def __float__(self):
        if self.is_const():
            return float(self.constant())
        raise TypeError("float() of a non-constant polynomial")

    # ---- queries
    def is_const(self):
        return all(all(e == 0 for e in k) for k in self.t)

    def constant(self):
        return self.t.get(tuple([0] * self.n), Fraction(0))

    def degree(self):
        return max((sum(k) for k in self.t), default=0)

    def deriv(self, i):
        t = {}
        for k, v in self.t.items():
            if k[i] > 0:
                e = list(k)
                e[i] -= 1
                t[tuple(e)] = t.get(tuple(e), 0) + v * k[i]
        return P(self.n, t)

    def __call__(self, x):
        tot = Fraction(0)
        for k, v in self.t.items():
            term = v
            for xi, e in zip(x, k):
                if e:
                    term *= Fraction(xi) ** e
            tot += term
        return tot

    def __eq__(self, o):
        o = self._coerce(o)
        if o is None:
            return False
        return self.t == o.t

    def __hash__(self):
        return hash(tuple(sorted(self.t.items())))

    def __repr__(self):
        if not self.t:
            return "0"
        return " + ".join(f"{v}*x^{list(k)}" for k, v in sorted(self.t.items()))

    def sorted_terms(self):
        return sorted(self.t.items())


def symbolic_points(dim):
    """X of shape (dim, 1) holding the coordinate polynomials"""
    X = np.empty((dim, 1), dtype=object)
    for i in range(dim):
        X[i, 0] = P.var(i, dim)
    return X


def to_poly(a, dim):
    """array element (P or number) -> P"""
    if isinstance(a, P):
        return a
    return P.const(a, dim)


def polys_of(arr, dim):
    """np array (any shape with trailing npts=1 axis) -> nested list of P with the trailing axis removed"""
    arr = np.asarray(arr, dtype=object)
    if arr.ndim == 0:
        return to_poly(arr.item(), dim)
    if arr.shape[-1] == 1:
        arr = arr[..., 0]
    else:
        raise ValueError("unexpected shape %r" % (arr.shape,))
    if arr.ndim == 0:
        return to_poly(arr.item(), dim)

    def rec(a):
        if not isinstance(a, np.ndarray):
            return to_poly(a, dim)
        if a.ndim == 0:
            return to_poly(a.item(), dim)
        return [rec(a[i]) for i in range(a.shape[0])]
    return rec(arr)
