#!/usr/bin/env python3
"""Confirm a seeded change (from /tmp/seedout_<Cxx>/<k>) and evaluate the check against it.

usage: seedeval.py Cxx k [--no-suite] [--other Cyy ...]
  1. in the scratch worktree /tmp/seed_<Cxx>: demo passes without the patch, fails with it, the
     scikit-fem suite still passes with it (536 passed);
  2. copies patch.diff, demo.py, notes.md to /verif/seeded/<Cxx>-<k>/ and writes meta.json;
  3. applies the patch to /repo, runs ./check <Cxx> (quick, with the proof layer), records the outcome,
     and restores /repo.
"""
import json
import os
import re
import shutil
import subprocess
import sys
from pathlib import Path

VERIF = Path(__file__).resolve().parents[1]


def sh(cmd, cwd=None, env=None, timeout=3600):
    p = subprocess.run(cmd, shell=True, cwd=cwd, env=env, text=True, stdout=subprocess.PIPE,
                       stderr=subprocess.STDOUT, timeout=timeout)
    return p.returncode, p.stdout


def main():
    pid, k = sys.argv[1], sys.argv[2]
    nosuite = "--no-suite" in sys.argv
    others = []
    if "--other" in sys.argv:
        others = sys.argv[sys.argv.index("--other") + 1:]
    rnd = {0: "", 1: "B", 2: "C", 3: "D", 4: "E"}[(int(k) - 1) // 2]       # rounds of seeding: k = 1,2 / 3,4 / 5,6 / 7,8
    src = Path(f"/tmp/seedout{rnd}_{pid}/{k}")
    wt = Path(f"/tmp/seed{rnd}_{pid}")
    dst = VERIF / "seeded" / f"{pid}-{k}"
    meta = {"property": pid, "source": "independent sub-agent given only the property text and a scratch worktree"}
    env = dict(os.environ, PYTHONPATH=str(wt), MPLBACKEND="Agg")
    sh("git checkout -- .", cwd=wt)
    rc0, out0 = sh(f"/venv/bin/python {src}/demo.py", cwd="/tmp", env=env, timeout=900)
    rca, outa = sh(f"git apply {src}/patch.diff", cwd=wt)
    if rca != 0:
        print("patch does not apply:", outa)
        sys.exit(1)
    rc1, out1 = sh(f"/venv/bin/python {src}/demo.py", cwd="/tmp", env=env, timeout=900)
    meta["demo_without_change"] = {"rc": rc0, "tail": out0[-300:]}
    meta["demo_with_change"] = {"rc": rc1, "tail": out1[-600:]}
    if not nosuite:
        rcs, outs = sh("/venv/bin/python -m pytest -q -p no:cacheprovider -n 12 --timeout=900 tests/ 2>&1 | tail -4",
                       cwd=wt, env=env, timeout=3000)
        m = re.search(r"(\d+) failed, (\d+) passed|(\d+) passed", outs)
        meta["suite_with_change"] = outs.strip().splitlines()[-1] if outs.strip() else ""
    sh("git checkout -- .", cwd=wt)
    ok = rc0 == 0 and rc1 != 0
    dst.mkdir(parents=True, exist_ok=True)
    if nosuite and (dst / "meta.json").exists():
        # re-evaluation after a check was strengthened: keep the recorded suite result
        old = json.loads((dst / "meta.json").read_text())
        if "suite_with_change" in old:
            meta["suite_with_change"] = old["suite_with_change"]
        if old.get("first_evaluation") or old.get("check_results"):
            meta["first_evaluation"] = old.get("first_evaluation") or {
                "detected_by": old.get("detected_by"), "check_results": old.get("check_results")}
    meta["confirmed"] = bool(ok and "536 passed" in meta.get("suite_with_change", ""))
    for f in ("patch.diff", "demo.py", "notes.md"):
        if (src / f).exists():
            shutil.copy(src / f, dst / f)
    notes = (src / "notes.md").read_text() if (src / "notes.md").exists() else ""
    meta["needs"] = notes[:1200]
    # evaluate the checks
    results = {}
    rcp, outp = sh(f"git apply {src}/patch.diff", cwd="/repo")
    if rcp != 0:
        results["error"] = "patch does not apply to /repo: " + outp[-300:]
    else:
        try:
            for c in [pid] + others:
                rc, out = sh(f"./check {c} --tier quick", cwd=VERIF, timeout=3000)
                lines = [l for l in out.splitlines() if l.startswith("VIOLATION") or l.startswith(f"[{c}]")]
                results[c] = {"rc": rc, "lines": lines[-4:]}
                # keep the replays out of the tree
                for r in (VERIF / "replays").glob(f"{c}_*"):
                    if "VIOLATION" in out:
                        r.unlink()
        finally:
            sh("git checkout -- .", cwd="/repo")
            # the checks regenerate lean/SkfemVerif/Gen/* from the (changed) source: restore them from the clean tree
            sh("PYTHONPATH=harness:/repo /venv/bin/python -m skv.gen", cwd=VERIF, timeout=1200)
    meta["check_results"] = results
    meta["detected_by"] = [c for c, r in results.items() if isinstance(r, dict) and r.get("rc") == 1]
    meta["ran"] = [f"demo.py without/with the change in {wt}", "full scikit-fem suite with the change (-n 12)",
                   f"git -C /repo apply patch.diff; ./check {pid} --tier quick; git -C /repo checkout -- ."]
    (dst / "meta.json").write_text(json.dumps(meta, indent=1))
    print(json.dumps({k2: meta[k2] for k2 in ("confirmed", "detected_by", "check_results")}, indent=1)[:1500])


if __name__ == "__main__":
    main()
