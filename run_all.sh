#!/bin/bash
# Run every claimed check (quick tier by default) and print one summary line each.
cd "$(dirname "${BASH_SOURCE[0]}")"
TIER="${1:-quick}"
for id in $(python3 -c "import json; print(' '.join(c['property_id'] for c in json.load(open('MANIFEST.json'))['checks']))"); do
  out=$(./check "$id" --tier "$TIER" 2>&1 >/tmp/.skv_stdout_$$ | tail -1)
  rc=$?
  echo "$out"
  cat /tmp/.skv_stdout_$$
done
rm -f /tmp/.skv_stdout_$$
